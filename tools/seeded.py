#!/venv/bin/python
"""Run the registered quick check of each kept seeded change (seeded/<id>/patch.diff) against a scratch worktree
of /repo with the patch applied; report caught / missed; remove the scratch.   usage: seeded.py [id ...]"""
import json
import os
import subprocess
import sys
import time

VERIF = os.path.dirname(os.path.dirname(os.path.abspath(__file__)))


def run(sid):
    d = os.path.join(VERIF, "seeded", sid)
    meta = json.load(open(os.path.join(d, "meta.json")))
    prop = meta["property"]
    scratch = "/tmp/seeded_%d" % os.getpid()
    subprocess.run(["git", "-C", "/repo", "worktree", "add", "-q", "--detach", scratch, "HEAD"], check=True)
    try:
        r = subprocess.run(["git", "-C", scratch, "apply", os.path.join(d, "patch.diff")], capture_output=True, text=True)
        if r.returncode != 0:
            return sid, prop, "PATCH-DOES-NOT-APPLY", r.stderr[-200:]
        cmd = [sys.executable, "-m", "dsim", "check", prop, "--tier", "quick", "--no-evidence"]
        if os.environ.get("SEEDED_RUNS"):
            cmd += ["--runs", os.environ["SEEDED_RUNS"]]
        t0 = time.time()
        r = subprocess.run(cmd, cwd=VERIF, env=dict(os.environ, VERIF_REPO=scratch), capture_output=True, text=True)
        lines = [l for l in r.stdout.splitlines() if l.startswith(("VIOLATION", "  fingerprint", "HARNESS"))]
        verdict = {0: "MISSED", 1: "CAUGHT", 3: "HARNESS-ERROR"}.get(r.returncode, "exit %d" % r.returncode)
        return sid, prop, "%s in %.0fs" % (verdict, time.time() - t0), " | ".join(l.strip()[:230] for l in lines[:3])
    finally:
        subprocess.run(["git", "-C", "/repo", "worktree", "remove", "--force", scratch])
        rd = os.path.join(VERIF, "replays")
        for f in os.listdir(rd):
            if f.endswith(".json"):
                os.unlink(os.path.join(rd, f))


if __name__ == "__main__":
    ids = sys.argv[1:] or sorted(x for x in os.listdir(os.path.join(VERIF, "seeded")) if os.path.isdir(os.path.join(VERIF, "seeded", x)))
    for s in ids:
        print("%-46s %s  %s\n      %s" % run(s))
        sys.stdout.flush()
