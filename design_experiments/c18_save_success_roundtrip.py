import os, shutil, json
W='/tmp/x18b/w'; shutil.rmtree(W, ignore_errors=True); os.makedirs(W+'/in/B'); os.makedirs(W+'/out/deep'); os.makedirs(W+'/run'); os.chdir(W)
from dataclasses import dataclass
from typing import Optional, List
from jsonargparse import ArgumentParser, ActionConfigFile, ActionParser, Namespace, strip_meta
import calendar
@dataclass
class G: u: int = 1; w: Optional[str] = None
def mk():
    inner=ArgumentParser(exit_on_error=False); inner.add_argument('--v', type=int, default=1); inner.add_argument('--n', type=Optional[int], default=None)
    inner2=ArgumentParser(exit_on_error=False); inner2.add_argument('--k', type=List[int], default=[])
    p=ArgumentParser(exit_on_error=False); p.add_argument('--cfg', action=ActionConfigFile); p.add_argument('--a', type=int, default=0)
    p.add_argument('--inner', action=ActionParser(parser=inner)); p.add_argument('--inner2', action=ActionParser(parser=inner2))
    p.add_class_arguments(G, 'g'); p.add_subclass_arguments(calendar.Calendar, 'cal')
    return p
open('in/main.yaml','w').write('a: 2\ninner: B/inner.yaml\ninner2: i2.json\ng: B/g.yaml\ncal: B/cal.yaml\n')
open('in/B/inner.yaml','w').write('v: 5\n'); open('in/i2.json','w').write('{"k":[1,2]}'); open('in/B/g.yaml','w').write('u: 9\n'); open('in/B/cal.yaml','w').write('class_path: calendar.TextCalendar\ninit_args:\n  firstweekday: 2\n')
p=mk(); os.chdir('run')
cfg=p.parse_path('../in/main.yaml'); print(cfg)
for tgt,kw in [('../out/m.yaml',{}), ('../out/deep/j.json',{'format':'json'}), ('../out/s.yaml',{'multifile':False}), ('../out/deep/n.yaml',{'skip_none':False})]:
    try:
        p.save(cfg, tgt, **kw)
        back=p.parse_path(tgt)
        print(tgt, kw, 'EQ' if strip_meta(back)==strip_meta(cfg) else 'DIFF', os.getcwd()==W+'/run')
        if strip_meta(back)!=strip_meta(cfg): print('   ',strip_meta(back),'\n   ',strip_meta(cfg))
    except Exception as e: print(tgt, kw, 'EXC', type(e).__name__, str(e)[:100])
for r,ds,fs in os.walk(W+'/out'):
    for f in fs: print(os.path.join(r,f).replace(W,''), repr(open(os.path.join(r,f)).read()))
