"""A module NO warm image imports: its classes exist for the interpreter only after some call named them by
their full import path (C09: short class names resolve through Base.__subclasses__(), i.e. through the import
history of the process)."""
from .simtypes import Base


class LateSub(Base):
    def __init__(self, n: float = 4, late: int = 0):
        self._rec(n=n, late=late)
        self.n = n
        self.late = late
