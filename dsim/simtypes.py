"""User code the parsers call back into.  Every callable starts with a seam point, so the fault plan
can make it raise, and constructor calls are logged (C08 'two fresh objects', C09 canonical results)."""
from abc import ABC, abstractmethod
from dataclasses import dataclass, field
from enum import Enum
from typing import Any, Callable, Dict, List, Optional, Set, Tuple, Union

from jsonargparse import lazy_instance
from jsonargparse.typing import Path_dw, Path_fc, Path_fr, register_type

from . import rt


def _canon(v):
    if isinstance(v, (int, float, str, bool, type(None))):
        return v
    if isinstance(v, (list, tuple)):
        return [type(v).__name__] + [_canon(x) for x in v]
    if isinstance(v, dict):
        return {str(k): _canon(x) for k, x in v.items()}
    if isinstance(v, SimObj):
        return {"<obj>": type(v).__name__, "kw": v._sim_kwargs}
    if hasattr(v, "relative") and hasattr(v, "absolute"):
        return {"<path>": str(v.relative)}
    return "<" + type(v).__name__ + ">"


class SimObj:
    _sim_kwargs: dict = {}

    def _rec(self, **kw):
        name = type(self).__name__
        self._sim_kwargs = {k: _canon(v) for k, v in kw.items()}
        if rt.CUR is not None:
            rt.CUR.cb_log.append((name, self._sim_kwargs, id(self)))
        rt.point("cb:" + name + ".__init__")


class Base(SimObj):
    def __init__(self, n: float = 0, tags: List[float] = [1.0]):
        self._rec(n=n, tags=tags)
        self.n = n
        self.tags = tags


class Sub1(Base):
    def __init__(self, n: float = 1, child: Optional[Base] = None, opts: Dict[str, float] = {"a": 1.0}):
        self._rec(n=n, child=child, opts=opts)
        self.n = n
        self.child = child
        self.opts = opts


class Sub2(Base):
    def __init__(self, path: Optional[Path_fr] = None, k: int = 2, n: float = 5):
        self._rec(path=path, k=k, n=n)
        self.path = path
        self.k = k
        self.n = n


class Sub3(Base):
    """same parameter name as Sub1.opts, different type: a class_path change cannot keep the old value"""

    def __init__(self, n: float = 3, opts: int = 0):
        self._rec(n=n, opts=opts)
        self.n = n
        self.opts = opts


class BadDefault(Base):
    """a declared default that does not validate against its own annotation"""

    def __init__(self, n: float = 2, k: int = 0.5, files: List[Path_fr] = ["no-such-file.txt"]):
        self._rec(n=n, k=k, files=files)
        self.n = n
        self.k = k


class Unrelated(SimObj):
    def __init__(self, q: int = 0):
        self._rec(q=q)
        self.q = q


class AbstractBase(ABC, SimObj):
    @abstractmethod
    def run(self): ...


class Concrete(AbstractBase):
    def __init__(self, z: int = 1):
        self._rec(z=z)
        self.z = z

    def run(self):
        return self.z


class Model(SimObj):
    """used as class group (add_class_arguments) and as link target"""

    def __init__(self, width: int = 3, base: Optional[Base] = None, name: str = "m"):
        self._rec(width=width, base=base, name=name)
        self.width = width
        self.base = base
        self.name = name


class Holder(SimObj):
    """a subclass-spec default derived from a signature default (lazy_instance)"""

    def __init__(self, inner: Base = lazy_instance(Sub1, n=2), m: int = 0):
        self._rec(inner=inner, m=m)
        self.inner = inner
        self.m = m


class WithPath(SimObj):
    def __init__(self, data: Path_fr, n: int = 0):
        self._rec(data=data, n=n)
        self.data = data
        self.n = n


@dataclass
class D:
    u: int = 1
    w: List[float] = field(default_factory=lambda: [1.0, 2.0])


@dataclass
class DP:
    q: Optional[Path_fr] = None
    v: List[float] = field(default_factory=lambda: [0.0])


@dataclass
class DI:
    lr: int = 1
    steps: int = 2


@dataclass
class DIn:
    p: int = 1
    q: Optional[List[str]] = None


@dataclass
class DOut:
    """dataclass with nested dataclass fields of every container shape"""

    inner: DIn = field(default_factory=DIn)
    opt: Optional[DIn] = None
    items: List[DIn] = field(default_factory=list)
    m: Dict[str, DIn] = field(default_factory=dict)
    nums: List[int] = field(default_factory=list)


class KW(SimObj):
    """a class that forwards **kwargs nowhere the resolver can see, and a method with a mutable default"""

    def __init__(self, a: int = 1, **kwargs):
        self._rec(a=a, kwargs=kwargs)
        self.a = a

    def meth(self, z: List[int] = [1], y: Optional[str] = None):
        return z


def sfunc(a: int = 0, b: str = "x", *, c: Optional[float] = None, **kw):
    rt.point("cb:sfunc")
    return a


class LBase(SimObj):
    """target of a parse-time link whose value is a whole group: what the link has to hand over (a dict or the
    group itself) depends on the class chosen at the moment"""

    def __init__(self):
        self._rec()


class TakesDI(LBase):
    def __init__(self, opts: DI = DI()):
        self._rec(opts=opts)
        self.opts = opts


class TakesDict(LBase):
    def __init__(self, opts: Dict[str, int] = {}):
        self._rec(opts=opts)
        self.opts = opts


class WithData(SimObj):
    """a class whose parameter is an Optional[dataclass]: nested dataclass-typed sub-argument"""

    def __init__(self, d: Optional[D] = None, k: int = 0):
        self._rec(d=d, k=k)
        self.d = d
        self.k = k


import collections as _collections

NT2 = _collections.namedtuple("NT2", ["first", "second"])  # a caller's named tuple used where a Tuple[...] is expected


class Color(Enum):
    red = 1
    green = 2


# ---- a registered scalar type whose (de)serialiser are fault points --------------------------------


class Probe:
    def __init__(self, text):
        self.text = text

    def __eq__(self, other):
        return isinstance(other, Probe) and other.text == self.text

    def __hash__(self):
        return hash(self.text)

    def __repr__(self):
        return "Probe(%r)" % (self.text,)


def probe_deserializer(s):
    rt.point("cb:Probe.deserialize")
    if isinstance(s, Probe):
        return s
    if not isinstance(s, str) or not s.startswith("p:"):
        raise ValueError("not a probe: %r" % (s,))
    return Probe(s)


def probe_serializer(p):
    rt.point("cb:Probe.serialize")
    if not isinstance(p, Probe):
        raise ValueError("not a Probe instance")
    return p.text


register_type(Probe, serializer=probe_serializer, deserializer=probe_deserializer)


# ---- link compute functions and type= callables -----------------------------------------------------


def double(x):
    rt.point("cb:double")
    return x * 2


def base_n(obj):
    rt.point("cb:base_n")
    return int(obj.n)


def pos_int(s):
    rt.point("cb:pos_int")
    try:
        v = int(s)
    except OverflowError:  # a well-behaved type function reports every bad value with its declared exception
        raise ValueError("not a finite number")
    if v <= 0:
        raise ValueError("expected a positive int")
    return v


def ate_int(s):
    """a type= function that reports bad values the way argparse documents: ArgumentTypeError"""
    import argparse

    rt.point("cb:ate_int")
    try:
        v = int(s)
    except (TypeError, ValueError, OverflowError):
        raise argparse.ArgumentTypeError("not an int: %r" % (s,))
    if v < 0:
        raise argparse.ArgumentTypeError("negative")
    return v


def make_base(n: float = 0) -> Base:
    return Base(n=n)
