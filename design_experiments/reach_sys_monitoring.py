import sys, ast, os, glob, time
import jsonargparse
from jsonargparse import ArgumentParser, ArgumentError, ActionConfigFile
from typing import List
# collect except/finally handler first lines per file
targets={}
for f in glob.glob('/repo/jsonargparse/*.py'):
    tree=ast.parse(open(f).read())
    for n in ast.walk(tree):
        if isinstance(n, ast.Try):
            for h in n.handlers: targets.setdefault(f,set()).add(h.body[0].lineno)
            if n.finalbody: targets.setdefault(f,set()).add(n.finalbody[0].lineno)
total=sum(len(v) for v in targets.values())
hit=set()
mon=sys.monitoring; TID=mon.COVERAGE_ID
mon.use_tool_id(TID,'dsim')
def on_line(code, line):
    t=targets.get(code.co_filename)
    if t and line in t: hit.add((code.co_filename,line))
    return mon.DISABLE
mon.register_callback(TID, mon.events.LINE, on_line)
mon.set_events(TID, mon.events.LINE)
p=ArgumentParser(exit_on_error=False); p.add_argument('--cfg',action=ActionConfigFile); p.add_argument('--a',type=int); p.add_argument('--l',type=List[int])
t=time.time()
for i in range(200):
    for a in (['--a=1'],['--a=x'],['--cfg','{"a":'],['--l+=1'],['--zz']):
        try: p.parse_args(a)
        except ArgumentError: pass
print('ms/parse', (time.time()-t)/1000*1000, 'handlers hit', len(hit), 'of', total)
mon.set_events(TID, 0)
