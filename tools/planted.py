#!/venv/bin/python
"""Sensitivity: apply a planted bug (textual replacement) to a scratch worktree of /repo, run the registered
quick command of the property against it (VERIF_REPO=<scratch>), report caught / missed, delete the scratch.

usage: planted.py [name ...]        (no name = all)      env PLANTED_RUNS=<n> to shorten the batch
"""
import json
import os
import subprocess
import sys
import time

VERIF = os.path.dirname(os.path.dirname(os.path.abspath(__file__)))

P = {}


def plant(name, prop, file, old, new):
    P[name] = (prop, file, old, new)


# ---- C03 ----------------------------------------------------------------------------------------
plant("c03-parse_object-drops-KeyError", "C03", "_core.py", """                skip_required=skip_required,
            )

        except (TypeError, KeyError) as ex:""", """                skip_required=skip_required,
            )

        except TypeError as ex:""")
plant("c03-loader-exceptions-not-caught", "C03", "_core.py", """        except get_loader_exceptions() as ex:
            raise TypeError(f"Problems parsing config: {ex}") from ex""", """        except RecursionError as ex:
            raise TypeError(f"Problems parsing config: {ex}") from ex""")
plant("c03-error-exits-1", "C03", "_core.py", """        sys.stderr.write(f"error: {message}\\n")
        self.exit(2)""", """        sys.stderr.write(f"error: {message}\\n")
        self.exit(1)""")
plant("c03-subconfig-catches-only-TypeError", "C03", "_actions.py", """        except (TypeError,) + get_loader_exceptions() as ex:
            str_ex = indent_text(f"- {ex}")""", """        except TypeError as ex:
            str_ex = indent_text(f"- {ex}")""")
# ---- C04 ----------------------------------------------------------------------------------------
plant("c04-env-merged-under-defaults", "C04", "_core.py", "            cfg = self.merge_config(cfg_env, cfg)\n\n        return cfg", "            cfg = self.merge_config(cfg, cfg_env)\n\n        return cfg")
plant("c04-glob-not-sorted", "C04", "_core.py", """            files = sorted(glob.glob(os.path.expanduser(pattern)))
            default_config_files += [(None, x) for x in files]""", """            files = glob.glob(os.path.expanduser(pattern))
            default_config_files += [(None, x) for x in files]""")
plant("c04-cfg-file-merged-under-namespace", "C04", "_actions.py", "            cfg_merged = parser.merge_config(cfg_file, cfg)", "            cfg_merged = parser.merge_config(cfg, cfg_file)")
plant("c04-env-vars-before-env-cfg", "C04", "_core.py", """            if env_var in env and isinstance(action, ActionConfigFile):
                ActionConfigFile.apply_config(self, cfg, action.dest, env[env_var])
        for action in actions:
            env_var = get_env_var(self, action)
            if env_var in env and isinstance(action, _ActionSubCommands):""", """            if env_var in env and isinstance(action, _ActionSubCommands):""")
# ---- C08 ----------------------------------------------------------------------------------------
plant("c08-chdir-restore-not-in-finally", "C08", "_util.py", """        yield path_dir
    finally:
        current_path_dir.reset(token)
        if prev_cwd is not None:
            os.chdir(prev_cwd)""", """        yield path_dir
    finally:
        current_path_dir.reset(token)
    if prev_cwd is not None:
        os.chdir(prev_cwd)""")
plant("c08-patch_namespace-not-in-finally", "C08", "_namespace.py", """    try:
        yield
    finally:
        argparse.Namespace = namespace_class""", """    yield
    argparse.Namespace = namespace_class""")
plant("c08-merge_config-no-clone", "C08", "_core.py", """        cfg_from = cfg_from.clone()
        cfg_to = cfg_to.clone()
        with parser_context(parent_parser=self):""", """        cfg_to = cfg_to.clone()
        with parser_context(parent_parser=self):""")
plant("c08-instantiate-no-copy", "C08", "_core.py", """        cfg = strip_meta(cfg)
        for component in components:""", """        for component in components:""")
plant("c08-get_defaults-shares-default", "C08", "_core.py", "                cfg[action.dest] = recreate_branches(action.default)", "                cfg[action.dest] = action.default")
plant("c08-parse_object-no-copy", "C08", "_core.py", "self._apply_actions(recreate_branches(cfg_obj), prev_cfg=cfg)", "self._apply_actions(cfg_obj, prev_cfg=cfg)")
# ---- C09 ----------------------------------------------------------------------------------------
plant("c09-print_config-request-survives", "C09", "_core.py", """        finally:
            self.__dict__.pop("print_config", None)  # a --print_config request never outlives its parse_args call
""", "")
plant("c09-parser_context-reset-not-in-finally", "C09", "_common.py", """    try:
        yield
    finally:
        for context_var, token in context_var_tokens:
            context_var.reset(token)""", """    yield
    for context_var, token in context_var_tokens:
        context_var.reset(token)""")
plant("c09-defaults-cached-on-parser", "C09", "_core.py", """        skip_validation = deprecated_skip_check(ArgumentParser.get_defaults, kwargs, skip_validation)
        cfg = Namespace()""", """        skip_validation = deprecated_skip_check(ArgumentParser.get_defaults, kwargs, skip_validation)
        if getattr(self, "_defaults_memo", None) is not None and self._defaults_memo[0] == skip_validation:
            return self._defaults_memo[1].clone()
        cfg = Namespace()""")  # completed below by a second replacement
plant("c09-previous_config-not-reset", "C09", "_actions.py", """    token = previous_config.set(cfg)
    try:
        yield
    finally:
        previous_config.reset(token)""", """    previous_config.set(cfg)
    yield""")
plant("c09-help-kwargs-shared-again", "C09", "_actions.py", "        sub_add_kwargs = dict(self.sub_add_kwargs)\n", "        sub_add_kwargs = self.sub_add_kwargs\n")
# ---- C18 ----------------------------------------------------------------------------------------
plant("c18-subfiles-not-checked-for-overwrite", "C18", "_core.py", """                            val_path = Path(os.path.basename(val["__path__"].absolute), mode="fc")
                            check_overwrite(val_path)""", """                            val_path = Path(os.path.basename(val["__path__"].absolute), mode="fc")""")
plant("c18-open-before-dump", "C18", "_core.py", """            cfg_str = self.dump(cfg, **dump_kwargs)  # type: ignore[arg-type]
            with open(path_fc.absolute, "w") as f:
                f.write(cfg_str)""", """            with open(path_fc.absolute, "w") as f:
                f.write(self.dump(cfg, **dump_kwargs))  # type: ignore[arg-type]""")
plant("c18-subfiles-written-eagerly", "C18", "_core.py", """                            pending_writes.append((val_path.absolute, val_str))""", """                            with open(val_path.absolute, "w") as f:
                                f.write(val_str)""")
plant("c18-multifile-validates-after-writing", "C18", "_core.py", """            if not skip_validation:
                with parser_context(load_value_mode=self.parser_mode):
                    self.validate(strip_meta(cfg), branch=branch)

            pending_writes = []""", """            pending_writes = []""")
# ---- C19 ----------------------------------------------------------------------------------------
plant("c19-X-flag-not-checked", "C19", "_util.py", """            if "X" in mode and os.access(abs_path, os.X_OK):
                raise PathError(f"{ptype} is executable: {abs_path!r}")
""", "")
plant("c19-W-w-swapped", "C19", "_util.py", """            if "W" in mode and os.access(abs_path, os.W_OK):""", """            if "W" in mode and not os.access(abs_path, os.W_OK):""")
plant("c19-single-c-walks-up", "C19", "_util.py", "if not os.path.isdir(pdir) and mode.count(\"c\") == 2:", "if not os.path.isdir(pdir) and mode.count(\"c\") >= 1:")
plant("c19-subconfig-not-relative-to-its-file", "C19", "_actions.py", """            with change_to_path_dir(cfg_path):
                cfg = parser._apply_actions(cfg, parent_key=self.dest)""", """            if True:
                cfg = parser._apply_actions(cfg, parent_key=self.dest)""")
plant("c19-dirname-for-d-modes-too", "C19", "_util.py", """        if "d" not in path.mode:
            path_dir = os.path.dirname(path_dir)""", """        path_dir = os.path.dirname(path_dir)""")
plant("c19-chdir-restore-not-in-finally", "C19", "_util.py", P["c08-chdir-restore-not-in-finally"][2], P["c08-chdir-restore-not-in-finally"][3])

EXTRA = {
    # second replacement of a two-site planted bug
    "c09-defaults-cached-on-parser": ("_core.py", """        ActionTypeHint.add_sub_defaults(self, cfg)

        return cfg

    ## Other methods ##""", """        ActionTypeHint.add_sub_defaults(self, cfg)
        self._defaults_memo = (skip_validation, cfg.clone())

        return cfg

    ## Other methods ##"""),
}


def run(name):
    prop, file, old, new = P[name]
    scratch = "/tmp/planted_%d" % os.getpid()
    subprocess.run(["git", "-C", "/repo", "worktree", "add", "-q", "--detach", scratch, "HEAD"], check=True)
    try:
        for f, o, n in [(file, old, new)] + ([EXTRA[name]] if name in EXTRA else []):
            path = os.path.join(scratch, "jsonargparse", f)
            s = open(path).read()
            if s.count(o) != 1:
                return name, prop, "PATCH-DOES-NOT-APPLY (%d matches)" % s.count(o), ""
            open(path, "w").write(s.replace(o, n))
        r = subprocess.run([sys.executable, "-c", "import sys; sys.path.insert(0, %r); import jsonargparse" % scratch], capture_output=True, text=True)
        if r.returncode != 0:
            return name, prop, "DOES-NOT-IMPORT", r.stderr[-200:]
        env = dict(os.environ, VERIF_REPO=scratch)
        cmd = [sys.executable, "-m", "dsim", "check", prop, "--tier", "quick", "--no-evidence"]
        if os.environ.get("PLANTED_RUNS"):
            cmd += ["--runs", os.environ["PLANTED_RUNS"]]
        t0 = time.time()
        r = subprocess.run(cmd, cwd=VERIF, env=env, capture_output=True, text=True)
        lines = [l for l in r.stdout.splitlines() if l.startswith(("VIOLATION", "  fingerprint", "HARNESS"))]
        verdict = {0: "MISSED", 1: "CAUGHT", 3: "HARNESS-ERROR"}.get(r.returncode, "exit %d" % r.returncode)
        return name, prop, "%s in %.0fs" % (verdict, time.time() - t0), " | ".join(l.strip()[:230] for l in lines[:3])
    finally:
        subprocess.run(["git", "-C", "/repo", "worktree", "remove", "--force", scratch])
        subprocess.run(["rm", "-f"] + [os.path.join(VERIF, "replays", f) for f in os.listdir(os.path.join(VERIF, "replays")) if f.endswith(".json")])


if __name__ == "__main__":
    names = sys.argv[1:] or list(P)
    for n in names:
        res = run(n)
        print("%-46s %s  %s\n      %s" % res)
        sys.stdout.flush()
