"""C04 - sources override each other in the documented order, left to right.

The world (which default config files exist, of what kind, in which order the directory yields them, what the
environment says) is owned by the simulator; the parser's result is compared key by key with a small
executable reference fold over the very same world."""
import copy
import glob as _glob
import json
import os
import stat as _stat

from .. import rt, zoo
from ..harness import run_op

LEVEL = "exploration"
RUNS = {"quick": 30000, "thorough": 600000}
WALL = {"quick": 150, "thorough": 1500}
RULE = (
    "one run = one seeded world (0-3 default_config_files entries, literal or glob, matching regular/empty/unreadable files, "
    "directories, FIFOs and dangling links; seeded listing order; process environment incl. JSONARGPARSE_DEFAULT_ENV, env "
    "config, individual variables) x 0-6 command line items x one of 9 parse method variants, compared with the reference "
    "fold; distinct = distinct (method, source kinds present, key kinds touched, outcome kind); non-trivial = at least two "
    "different sources assign the same key"
)
ASSUMPTIONS = [
    "values are drawn from pools whose text is unambiguous in every channel (value loading is another property)",
    "one spelling style (nested or dotted) per document",
    "a default config file that is not a readable regular file, or is empty, contributes nothing; the others still apply",
    "JSONARGPARSE_DEFAULT_ENV is read when the parser is constructed (documented); individual variables when it parses",
]
PROBES = ["parse-path-in-another-directory", "history-before-parse", "default-config-edited-after-history", "append-key-in-config", "dcf-file-reached-twice", "glob-multi", "glob-unsorted-listing", "dcf-nonfile-match", "dcf-unreadable-match", "dcf-empty-file", "env-on", "env-off-with-vars", "same-key-3-sources", "append", "dict-item", "cfg-on-argv", "env-skew"]
ANCHOR_FILES = ("_core", "_actions", "_namespace", "_typehints", "_formatters")
NO_SHRINK = ("world/dirs", "world/cwd", "parser", "parser/*")
SHRINK_DICTS = ("world/files", "world/env", "world/symlinks", "env_build", "direct")

KEYS = {
    "a": ("int", 0),
    "s": ("str", "s0"),
    "o": ("optint", None),
    "g.x": ("int", -1),
    "g.y": ("str", "y0"),
    "g.h.z": ("int", -3),
    "l": ("list_int", [0]),
    "g.l": ("list_int", []),
    "ll": ("list_list_int", [[0]]),
    "d": ("dict_str_int", {"z": 0}),
    "g.d": ("dict_str_int", {}),
    "u": ("union_int_list", [1]),  # a Union with a scalar member before the list member: values assigned are lists, 'u+' appends
    "my_l": ("list_int", [0]),  # declared as --my-l: option name with a dash, key my_l
    "dg.u": ("int", 1),  # dg: a class group (dataclass D) - the group has a config option of its own, --dg <file or string>
    "dg.w": ("list_int", [1, 2]),
}
OPT = {"my_l": "my-l"}  # spelling of the option on the command line / in the declaration, where it differs from the key
APPENDABLE = ("list_int", "union_int_list")
METHODS = ["parse_path_elsewhere", "parse_args", "parse_args", "parse_args_envT", "parse_args_envF", "parse_env", "parse_env_os", "parse_string", "parse_string_envT", "parse_object", "parse_object_envT", "parse_args_nodef", "parse_args_nodef_envT", "parse_object_nodef", "parse_path", "parse_path_envT"]


def rnd_val(r, t):
    if t == "int":
        return r.randint(1, 99)
    if t == "optint":
        return r.randint(1, 99) if r.random() < 0.8 else None
    if t == "str":
        return "v%d" % r.randint(1, 99) if r.random() < 0.88 else ""  # the empty string is a value like any other
    if t in ("list_int", "union_int_list"):
        return [r.randint(1, 9) for _ in range(r.randint(0, 3))]
    if t == "list_list_int":
        return [[r.randint(1, 9) for _ in range(r.randint(0, 2))] for _ in range(r.randint(0, 2))]
    if t == "dict_str_int":
        return {r.choice("pqr"): r.randint(1, 9) for _ in range(r.randint(0, 2))}
    raise ValueError(t)


def rnd_settings(r, hot, maxn=3):
    """settings biased towards the run's 'hot' keys so that several sources hit the same key"""
    n = r.randint(0, maxn)
    ks = set()
    for _ in range(n):
        ks.add(r.choice(hot) if r.random() < 0.7 else r.choice(list(KEYS)))
    return {k: rnd_val(r, KEYS[k][0]) for k in sorted(ks)}


def nest(settings):
    out = {}
    for k, v in settings.items():
        parts = k.split(".")
        cur = out
        for q in parts[:-1]:
            cur = cur.setdefault(q, {})
        cur[parts[-1]] = v
    return out


def doc(r, settings, appends=True):
    """one spelling style per document; a list-typed key may be spelled 'key+' (append to the list built so far)"""
    st = {}
    for k, v in settings.items():
        if appends and KEYS[k][0] in APPENDABLE and r.random() < 0.2:
            st[k + "+"] = v[0] if v and r.random() < 0.4 else v  # one item may be given bare
        else:
            st[k] = v
    return dict(st) if r.random() < 0.4 else nest(st)


def text(v):
    return v if isinstance(v, str) else json.dumps(v)


PREFIXES = [None, None, None, "report.v2", "my-app", "App", "x"]  # None = derived from prog ('app')


def env_name(prefix, key):
    """documented naming of environment variables"""
    p = "app" if prefix is None else prefix
    return ((p.replace("-", "_") + "_") + key).replace(".", "__").upper()


def generate(rng, tier):
    r = rng
    prefix = r.choice(PREFIXES)
    hot = r.sample(list(KEYS), r.randint(1, 3))
    files, dirs, symlinks, fifos = {}, ["home", "run", "dc"], {}, []
    dcf = []
    for i in range(r.randint(0, 3)):
        if r.random() < 0.55:
            sub = "dc/p%d" % i
            dirs.append(sub)
            for n in r.sample(["a", "b", "c", "d", "e", "9", "10", "100", "2-x", "B"], r.randint(0, 4)):
                fn = "%s/%s.yaml" % (sub, n)
                c = r.random()
                if c < 0.62:
                    files[fn] = json.dumps(doc(r, rnd_settings(r, hot)))
                elif c < 0.72:
                    files[fn] = r.choice(["", "\n", "   \n"])
                elif c < 0.80:
                    dirs.append(fn)
                elif c < 0.86:
                    files[fn] = {"text": json.dumps(doc(r, rnd_settings(r, hot))), "mode": 0o000}
                elif c < 0.92:
                    fifos.append(fn)
                else:
                    symlinks[fn] = "nothing"
            dcf.append(("$W/" if r.random() < 0.5 else "../") + sub + "/*.yaml")
        else:
            fn = "dc/f%d.yaml" % i
            dcf.append(("$W/" if r.random() < 0.5 else "../") + fn)
            c = r.random()
            if c < 0.6:
                files[fn] = json.dumps(doc(r, rnd_settings(r, hot)))
            elif c < 0.7:
                files[fn] = ""
            elif c < 0.76:
                dirs.append(fn)
            elif c < 0.8:
                files[fn] = {"text": json.dumps(doc(r, rnd_settings(r, hot))), "mode": 0o000}
    if dcf and r.random() < 0.25:
        # the same file reached twice: a pattern repeated, or a literal entry for a file a glob also matches
        again = r.choice(dcf)
        if again.endswith("/*.yaml") and r.random() < 0.6:
            sub = again[: -len("/*.yaml")]
            cands = [f for f in files if ("$W/" + f).startswith(sub.replace("../", "$W/") + "/")]
            if cands:
                again = "$W/" + r.choice(sorted(cands))
        dcf.insert(r.randint(0, len(dcf)), again)
    env = {}
    if r.random() < 0.5:
        st = rnd_settings(r, hot)
        if r.random() < 0.5:
            files["run/envcfg.yaml"] = json.dumps(doc(r, st))
            env[env_name(prefix, "cfg")] = "envcfg.yaml"
        else:
            env[env_name(prefix, "cfg")] = json.dumps(doc(r, st))
    for k, v in rnd_settings(r, hot).items():
        env[env_name(prefix, k)] = text(v)
    argv = []
    for i in range(r.randint(0, 6)):
        c = r.random()
        if c < 0.45:
            k = r.choice(hot) if r.random() < 0.7 else r.choice(list(KEYS))
            tv = text(rnd_val(r, KEYS[k][0]))
            if r.random() < 0.5:
                argv.append("--%s=%s" % (OPT.get(k, k), tv))
            else:
                argv += ["--" + OPT.get(k, k), tv]
        elif c < 0.6:
            k = r.choice(["l", "g.l", "l", "g.l", "u", "my_l", "dg.w"])
            v = r.randint(1, 9) if r.random() < 0.6 else [r.randint(1, 9) for _ in range(r.randint(0, 2))]
            if r.random() < 0.8:
                argv.append("--%s+=%s" % (OPT.get(k, k), text(v)))
            else:
                argv += ["--%s+" % OPT.get(k, k), text(v)]
        elif c < 0.66:
            # a config for the group alone, at its position on the command line (text or file; 'w+' appends)
            gd = {}
            if r.random() < 0.6:
                gd["u"] = r.randint(2, 99)
            if r.random() < 0.7:
                v = [r.randint(1, 9) for _ in range(r.randint(0, 2))]
                gd["w+" if r.random() < 0.5 else "w"] = v
            if r.random() < 0.5:
                fn = "run/grp%d.yaml" % i
                files[fn] = json.dumps(gd)
                argv += ["--dg", os.path.basename(fn)]
            else:
                argv += ["--dg", json.dumps(gd)]
        elif c < 0.72:
            argv.append("--%s.%s=%d" % (r.choice(["d", "d", "g.d"]), r.choice("pqr"), r.randint(1, 9)))
        else:
            st = rnd_settings(r, hot)
            if r.random() < 0.5:
                fn = "run/arg%d.yaml" % i
                files[fn] = json.dumps(doc(r, st))
                argv += ["--cfg", os.path.basename(fn)]
            else:
                argv += ["--cfg", json.dumps(doc(r, st))]
    osdefenv = r.choice([None, None, "true", "false"])
    env_build = None
    if r.random() < 0.15:
        # environment at construction time differs from the one at parse time (individual variables only)
        env_build = {k: text(rnd_val(r, "int")) for k in list(env) if k != env_name(prefix, "cfg") and r.random() < 0.5}
        env_build[env_name(prefix, "a")] = "77"
    sc = {
        "parser": {"default_env": r.random() < 0.5, "dcf": dcf, "env_prefix": prefix},
        "world": {"dirs": dirs + ["other/deep"], "files": files, "symlinks": symlinks, "fifos": fifos, "cwd": "run", "env": {}},
        "env": env,
        "env_build": env_build,
        "osdefenv": osdefenv,
        "argv": argv,
        "method": r.choice(METHODS),
        "direct": doc(r, rnd_settings(r, hot, 4)),
        # the mapping handed to parse_env(): the process environment itself, a subset of it, or an empty mapping
        "env_arg": None if r.random() < 0.5 else sorted(k for k in env if r.random() < 0.5),
        "listing_seed": r.randrange(1 << 30),
        "faults": [],
        "tier": tier,
    }
    if sc["method"] == "parse_path_elsewhere":
        # the parsed file lies in another directory: relative default config patterns and a relative env config path
        # are the process's business (its cwd), not the parsed file's.  The env config is given inline here.
        ek = env_name(prefix, "cfg")
        if ek in env and not env[ek].lstrip().startswith("{"):
            env[ek] = files["run/envcfg.yaml"]
    # history: calls made on the same parser BEFORE the judged parse (their outcome is not judged), optionally
    # followed by an edit of the default config files -- the final values must follow the sources as they are
    # when the judged parse runs, not as they were when help was printed or defaults were computed earlier
    sc["prelude"] = []
    sc["world_edit"] = []
    if r.random() < 0.25:
        sc["prelude"] = [r.choice(PRELUDE) for _ in range(r.randint(1, 2))]
        lit = sorted(f for f, v in files.items() if f.startswith("dc/") and isinstance(v, str))
        if lit and r.random() < 0.6:
            for f in r.sample(lit, min(len(lit), r.randint(1, 2))):
                sc["world_edit"].append({"path": f, "text": None if r.random() < 0.4 else json.dumps(doc(r, rnd_settings(r, hot)))})
    return sc


# ---------------------------------------------------------------------------------------------------
# the reference model


def flatten(d, pre=""):
    out = {}
    for k, v in d.items():
        kk = pre + k
        if isinstance(v, dict) and kk not in KEYS and kk.rstrip("+") not in KEYS:
            out.update(flatten(v, kk + "."))
        else:
            out[kk] = v
    return out


def load_doc(txt):
    try:
        d = json.loads(txt)
    except ValueError:
        return None
    return d if isinstance(d, dict) else None


def dcf_sources(sc, root, cwd, order="sorted", listing=None):
    """[(file, doc)] of the default config files that count: regular, readable (simulated owner), non-empty"""
    out = []
    notes = set()
    for pi, pattern in enumerate(sc["parser"]["dcf"]):
        pat = pattern if os.path.isabs(pattern) else os.path.join(cwd, pattern)
        matches = _glob.glob(pat)
        if order == "sorted":
            matches = sorted(matches)
        elif order == "listing" and listing is not None and pi < len(listing):
            matches = list(listing[pi])
        elif order == "reversed":
            matches = sorted(matches, reverse=True)
        for f in matches:
            try:
                st = os.stat(f)
            except OSError:
                notes.add("dcf-nonfile-match")
                continue
            if not _stat.S_ISREG(st.st_mode):
                if not _stat.S_ISFIFO(st.st_mode):
                    notes.add("dcf-nonfile-match")
                continue
            if not st.st_mode & 0o400:
                notes.add("dcf-unreadable-match")
                continue
            with open(f) as fh:
                txt = fh.read()
            if not txt.strip():
                notes.add("dcf-empty-file")
                continue
            d = load_doc(txt)
            if d is not None:
                if any(x[2] == os.path.realpath(f) for x in out):
                    notes.add("dcf-file-reached-twice")
                out.append(("dcf", d, os.path.realpath(f)))
    return out, notes


def env_sources(sc, env, cwd):
    cfgsrc, varsrc = [], []
    prefix = sc["parser"].get("env_prefix")
    for var, txt in env.items():
        if var == env_name(prefix, "cfg"):
            if txt.lstrip().startswith("{"):
                d = load_doc(txt)
            else:
                with open(os.path.join(cwd, txt)) as fh:
                    d = load_doc(fh.read())
            if d is not None:
                cfgsrc.append(("cfg", d))
    for key in KEYS:
        var = env_name(prefix, key)
        if var in env:
            t = KEYS[key][0]
            txt = env[var]
            varsrc.append(("set", key, txt if t == "str" else json.loads(txt)))
    return cfgsrc, varsrc


def argv_sources(sc, cwd):
    out = []
    it = iter(sc["argv"])
    for tok in it:
        if "=" in tok and tok.startswith("--") and not tok.startswith("--cfg"):
            k, v = tok[2:].split("=", 1)
        elif tok == "--dg":
            v = next(it)
            if v.lstrip().startswith("{"):
                d = load_doc(v)
            else:
                with open(os.path.join(cwd, v)) as fh:
                    d = load_doc(fh.read())
            out.append(("gcfg", {"dg": d}))
            continue
        elif tok == "--cfg":
            v = next(it)
            if v.lstrip().startswith("{"):
                d = load_doc(v)
            else:
                with open(os.path.join(cwd, v)) as fh:
                    d = load_doc(fh.read())
            out.append(("cfg", d))
            continue
        else:
            k, v = tok[2:], next(it)
        k = k.replace("-", "_")
        if k.endswith("+"):
            val = json.loads(v)
            out.append(("app", k[:-1], val if isinstance(val, list) else [val]))
        elif k.startswith("d."):
            out.append(("item", "d", k[2:], json.loads(v)))
        elif k.startswith("g.d."):
            out.append(("item", "g.d", k[4:], json.loads(v)))
        else:
            t = KEYS[k][0]
            out.append(("set", k, v if t == "str" else json.loads(v)))
    return out


def env_on(sc):
    de = sc["parser"]["default_env"] if sc["osdefenv"] is None else (sc["osdefenv"] == "true")
    return {
        "parse_args": de,
        "parse_args_envT": True,
        "parse_args_envF": False,
        "parse_env": True,
        "parse_env_os": True,
        "parse_string": de,
        "parse_string_envT": True,
        "parse_object": de,
        "parse_object_envT": True,
        "parse_args_nodef": de,
        "parse_args_nodef_envT": True,
        "parse_object_nodef": de,
        "parse_path": de,
        "parse_path_elsewhere": de,
        "parse_path_envT": True,
    }[sc["method"]]


def fold(sc, root, cwd, variant=None, listing=None):
    vs = set(variant.split("+")) if variant else set()  # 'a+b': two deviations at once
    nodef = "_nodef" in sc["method"]  # defaults=False: neither code defaults nor default config files
    st = {k: (None if nodef else copy.deepcopy(d)) for k, (t, d) in KEYS.items()}
    touched = {}

    deferred = []

    def app(src, origin):
        if src[0] in ("dcf", "cfg", "gcfg"):
            for k, v in flatten(src[1]).items():
                if src[0] == "gcfg" and k.endswith("+") and "group-config-append-deferred" in vs:
                    deferred.append(("app", k[:-1], v if isinstance(v, list) else [v]))
                elif k.endswith("+") and k[:-1] in st:
                    if "env-config-append-as-assign" in vs and origin == "env":
                        app(("set", k[:-1], v if isinstance(v, list) else [v]), origin)
                    else:
                        app(("app", k[:-1], v if isinstance(v, list) else [v]), origin)
                elif k in st:
                    st[k] = copy.deepcopy(v)
                    touched.setdefault(k, set()).add(origin)
        elif src[0] == "set":
            st[src[1]] = copy.deepcopy(src[2])
            touched.setdefault(src[1], set()).add(origin)
        elif src[0] == "app":
            if "append-as-assign" in vs:
                st[src[1]] = list(src[2])
            else:
                st[src[1]] = list(st[src[1]] or []) + list(src[2])
            touched.setdefault(src[1], set()).add(origin)
        elif src[0] == "item":
            d = {} if "dict-item-as-assign" in vs else dict(st[src[1]] or {})
            d[src[2]] = src[3]
            st[src[1]] = d
            touched.setdefault(src[1], set()).add(origin)

    order = "sorted"
    if "dcf-listing-order" in vs:
        order = "listing"
    elif "dcf-reversed" in vs:
        order = "reversed"
    dsrc, notes = dcf_sources(sc, root, os.path.join(root, "other/deep") if "dcf-relative-to-parsed-file-dir" in vs else cwd, order, listing)
    if "dcf-duplicates-dropped" in vs:
        seen, uniq = set(), []
        for s in dsrc:
            if s[2] not in seen:
                seen.add(s[2])
                uniq.append(s)
        dsrc = uniq
    if "dcf-patterns-reversed" in vs:
        dsrc = list(reversed(dsrc))
    if "dcf-all-dropped" not in vs and not nodef:
        for s in dsrc:
            app(s, "dcf")
    m = sc["method"]
    envd = sc["env"]
    if m == "parse_env" and sc.get("env_arg") is not None and "env-mapping-ignored-for-process-env" not in vs:
        envd = {k: sc["env"][k] for k in sc["env_arg"] if k in sc["env"]}
    cfgsrc, varsrc = env_sources(sc, envd, cwd)
    asrc = argv_sources(sc, cwd) if m.startswith("parse_args") else []
    dsrc2 = [("cfg", sc["direct"])] if m.startswith(("parse_string", "parse_object", "parse_path")) else []
    on = env_on(sc)
    if "env-ignored" in vs:
        on = False
    if "env-forced" in vs:
        on = True
    esrc = (varsrc + cfgsrc) if "env-vars-before-env-cfg" in vs else (cfgsrc + varsrc)
    if "env-after-method-source" in vs:
        for s in asrc + dsrc2:
            app(s, "argv" if asrc else "direct")
        if on:
            for s in esrc:
                app(s, "env")
    else:
        if on:
            for s in esrc:
                app(s, "env")
        seq = asrc + dsrc2
        if "argv-right-to-left" in vs:
            seq = list(reversed(seq))
        for s in seq:
            app(s, "argv" if asrc else "direct")
    for s in deferred:
        app(s, "argv")
    return st, touched, notes, on


VARIANTS = ["group-config-append-deferred", "dcf-relative-to-parsed-file-dir", "env-config-append-as-assign", "dcf-all-dropped", "dcf-duplicates-dropped", "dcf-listing-order", "dcf-reversed", "dcf-patterns-reversed", "env-ignored", "env-forced", "env-mapping-ignored-for-process-env", "env-vars-before-env-cfg", "env-after-method-source", "argv-right-to-left", "append-as-assign", "dict-item-as-assign"]


# ---------------------------------------------------------------------------------------------------


def build_parser(sc):
    args = [{"k": "cfg"}] + [{"k": "arg", "name": OPT.get(k, k), "type": t, "default": copy.deepcopy(d)} for k, (t, d) in KEYS.items() if not k.startswith("dg.")]
    args.append({"k": "class", "cls": "D", "name": "dg"})
    opts = {"exit_on_error": False, "default_env": sc["parser"]["default_env"], "default_config_files": list(sc["parser"]["dcf"])}
    if sc["parser"].get("env_prefix") is not None:
        opts["env_prefix"] = sc["parser"]["env_prefix"]
    return zoo.build({"opts": opts, "args": args})


def run_method(p, sc):
    m = sc["method"]
    if m == "parse_env":
        if sc.get("env_arg") is not None:
            return p.parse_env({k: sc["env"][k] for k in sc["env_arg"] if k in sc["env"]})
        return p.parse_env(dict(sc["env"]))
    if m == "parse_env_os":
        return p.parse_env()
    if m == "parse_string":
        return p.parse_string(json.dumps(sc["direct"]))
    if m == "parse_string_envT":
        return p.parse_string(json.dumps(sc["direct"]), env=True)
    if m == "parse_object":
        return p.parse_object(copy.deepcopy(sc["direct"]))
    if m == "parse_object_envT":
        return p.parse_object(copy.deepcopy(sc["direct"]), env=True)
    if m == "parse_path_elsewhere":
        with open("../other/deep/direct_doc.yaml", "w") as fh:
            fh.write(json.dumps(sc["direct"]))
        return p.parse_path("../other/deep/direct_doc.yaml")
    if m in ("parse_path", "parse_path_envT"):
        with open("direct_doc.yaml", "w") as fh:
            fh.write(json.dumps(sc["direct"]))
        return p.parse_path("direct_doc.yaml", **({"env": True} if m.endswith("envT") else {}))
    if m == "parse_object_nodef":
        return p.parse_object(copy.deepcopy(sc["direct"]), defaults=False)
    kw = {"parse_args": {}, "parse_args_envT": {"env": True}, "parse_args_envF": {"env": False}, "parse_args_nodef": {"defaults": False}, "parse_args_nodef_envT": {"defaults": False, "env": True}}[m]
    return p.parse_args(list(sc["argv"]), **kw)


PRELUDE = ["help", "help", "defaults", "parse_empty", "parse_fail", "dump", "print_config", "help_flag"]


def run_prelude(p, name):
    if name == "help":
        return p.format_help()
    if name == "defaults":
        return p.get_defaults()
    if name == "parse_empty":
        return p.parse_args([])
    if name == "parse_fail":
        return p.parse_args(["--a=bad"])
    if name == "dump":
        return p.dump(p.get_defaults())
    if name == "print_config":
        return p.parse_args(["--print_config"])
    if name == "help_flag":
        return p.parse_args(["--help"])
    raise ValueError(name)


def key_kind(k):
    t = KEYS[k][0]
    return ("nested-" if "." in k else "dashed-" if k in OPT else "flat-") + ("list" if t.startswith("list") else "union" if t.startswith("union") else "dict" if t.startswith("dict") else "scalar")


def execute(sc, ctx):
    sim, root = ctx.sim, ctx.root
    cwd = os.getcwd()
    if sc.get("osdefenv"):
        os.environ["JSONARGPARSE_DEFAULT_ENV"] = sc["osdefenv"]
    if sc.get("env_build") is not None:
        os.environ.update(sc["env_build"])
        sim.probe("env-skew")
    sim.begin_op(0, "build")
    p = build_parser(sc)
    if sc.get("env_build") is not None:
        for k in sc["env_build"]:
            os.environ.pop(k, None)
    os.environ.update(sc["env"])
    for name in sc.get("prelude", []):
        run_op(lambda: run_prelude(p, name))
        sim.probe("history-before-parse")
    with rt.suspended():
        for e in sc.get("world_edit", []):
            fn = os.path.join(root, e["path"])
            try:
                if e["text"] is None:
                    os.unlink(fn)
                else:
                    with open(fn, "w") as fh:
                        fh.write(e["text"])
                sim.probe("default-config-edited-after-history")
            except OSError:
                pass
    listing = []
    sim.begin_op(1, sc["method"])
    n_ev = len(sim.events)
    rec = sim.record_events
    sim.record_events = True
    o = run_op(lambda: run_method(p, sc))
    sim.record_events = rec
    for ev in sim.events[n_ev:]:
        if len(ev) > 1 and ev[1] == "glob-result":
            listing.append([x.replace("$W", root) for x in ev[2]])
    if not rec:
        del sim.events[n_ev:]
    listing = listing[: len(sc["parser"]["dcf"])]
    with rt.suspended():
        exp, touched, notes, on = fold(sc, root, cwd)
        for n in notes:
            sim.probe(n)
        if sc["method"] == "parse_path_elsewhere":
            sim.probe("parse-path-in-another-directory")
        if on:
            sim.probe("env-on")
        elif sc["env"]:
            sim.probe("env-off-with-vars")
        multi = [k for k, v in touched.items() if len(v) >= 2]
        if any(len(v) >= 3 for v in touched.values()):
            sim.probe("same-key-3-sources")
        if any(t.startswith("--") and "+=" in t for t in sc["argv"]) and sc["method"].startswith("parse_args"):
            sim.probe("append")
        if any(t.startswith(("--d.", "--g.d.")) for t in sc["argv"]) and sc["method"].startswith("parse_args"):
            sim.probe("dict-item")
        if "--cfg" in sc["argv"] and sc["method"].startswith("parse_args"):
            sim.probe("cfg-on-argv")
        if '+\\"' in json.dumps([sc["world"]["files"], sc["argv"], sc["env"], sc["direct"]]) or '+"' in json.dumps(sc["direct"]):
            sim.probe("append-key-in-config")
        ctx.nontrivial = bool(multi)
        ctx.notes["srcs"] = [sc["method"], sorted(notes), sorted(set(key_kind(k) for k in touched)), sorted(set(x for v in touched.values() for x in v)), on]
        ctx.record(sc["method"], o.brief())
        # input feature of a recorded deviation: a group-level config with a 'key+' entry while defaults are off
        gctx = "group-config-append-with-defaults-off" if "_nodef" in sc["method"] and any(s_[0] == "gcfg" and any(k.endswith("+") for k in flatten(s_[1])) for s_ in argv_sources(sc, cwd)) else "-"
        if o.kind != "ret":
            why = "append-key-of-group-config-not-resolved" if "does not accept nested key" in (o.text or "") and "+'" in (o.text or "") else "other"
            ctx.violation("fold-mismatch", dict({"model": "parse-failed", "exc": o.brief()}, **({"why": why} if why != "other" else {}), **({"ctx": gctx} if gctx != "-" else {})), "all sources are well-formed, yet %s failed: %s %s" % (sc["method"], o.brief(), (o.text or o.stderr)[:400]))
            return
        got = {k: _plain(o.value.get(k)) for k in KEYS}
        bad = [k for k in KEYS if got[k] != exp[k]]
        if not bad:
            return
        model = "unexplained"
        for v in VARIANTS:
            if v == "dcf-relative-to-parsed-file-dir" and sc["method"] != "parse_path_elsewhere":
                continue  # only a file parsed from another directory can explain anything that way
            try:
                alt = fold(sc, root, cwd, v, listing)[0]
            except Exception:
                continue
            if all(got[k] == alt[k] for k in KEYS):
                model = v
                break
        if model == "unexplained":
            # two recorded deviations can coincide in one scenario
            for v in ("dcf-relative-to-parsed-file-dir+env-config-append-as-assign",):
                alt = fold(sc, root, cwd, v, listing)[0]
                if all(got[k] == alt[k] for k in KEYS):
                    model = v
        k0 = bad[0]
        ctx.violation(
            "fold-mismatch",
            dict({"model": model, "key": key_kind(k0)}, **({"ctx": gctx} if gctx != "-" else {})),
            "%s: key %s = %r, reference fold says %r (sources touching it: %s); counter-model: %s; all differing keys: %s" % (sc["method"], k0, got[k0], exp[k0], sorted(touched.get(k0, [])), model, bad),
        )


def _plain(v):
    from jsonargparse import Namespace

    if isinstance(v, Namespace):
        return {k: _plain(x) for k, x in vars(v).items()}
    if isinstance(v, dict):
        return {k: _plain(x) for k, x in v.items()}
    if isinstance(v, (list, tuple)):
        return [_plain(x) for x in v]
    return v
