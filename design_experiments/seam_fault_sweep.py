import os, builtins, glob as real_glob, sys, argparse, errno, shutil
import jsonargparse, jsonargparse._util as U, jsonargparse._core as C, jsonargparse._typehints as T
from jsonargparse import ArgumentParser, ActionConfigFile, ActionParser, ArgumentError
from jsonargparse.typing import Path_fr
from typing import Optional
class Fault(Exception): pass
class Abort(BaseException): pass
STATE={'n':0,'k':None,'exc':None,'stack':[], 'log':[]}
def point(kind, arg=None, restoring=False):
    STATE['n']+=1; STATE['log'].append((kind,arg))
    if STATE['k']==STATE['n'] and not restoring:
        raise STATE['exc']
class PathProxy:
    def __getattr__(s, n):
        f=getattr(os.path,n)
        if n in ('isfile','isdir','realpath','exists'):
            def w(*a,**k): point('os.path.'+n,a[0]); return f(*a,**k)
            return w
        return f
class OsProxy:
    path=PathProxy()
    def __getattr__(s, n):
        f=getattr(os,n)
        if n in ('access','stat','getcwd'):
            def w(*a,**k): point('os.'+n, a[0] if a else None); return f(*a,**k)
            return w
        if n=='chdir':
            def w(p):
                st=STATE['stack']; restoring = bool(st) and os.path.realpath(p)==st[-1]
                point('os.chdir',p,restoring)
                if restoring: st.pop()
                else: st.append(os.path.realpath(os.getcwd()))
                return os.chdir(p)
            return w
        return f
px=OsProxy()
for m in (U,C,T): m.os=px
def sim_open(*a,**k): point('open',a[0]); return builtins.open(*a,**k)
U.open=sim_open; C.open=sim_open
class Base:
    def __init__(self, data: Path_fr, n: int = 0):
        point('cb:Base'); self.data=data
W='/tmp/xseam/w2'; shutil.rmtree(W, ignore_errors=True); os.makedirs(W+'/A/B/C'); os.makedirs(W+'/run'); os.chdir(W)
open('A/main.yaml','w').write('p: pa.txt\ninner: B/inner.yaml\nobj: B/C/obj.yaml\n'); open('A/pa.txt','w').write('x'); open('A/B/inner.yaml','w').write('q: qb.txt\n'); open('A/B/qb.txt','w').write('x')
open('A/B/C/obj.yaml','w').write('class_path: __main__.Base\ninit_args:\n  data: dc.txt\n'); open('A/B/C/dc.txt','w').write('x'); open('dflt.yaml','w').write('a: 1\n')
os.chdir('run')
def mk():
    inner=ArgumentParser(exit_on_error=False); inner.add_argument('--q', type=Path_fr)
    p=ArgumentParser(exit_on_error=False, default_config_files=[W+'/dflt.yaml']); p.add_argument('--cfg',action=ActionConfigFile); p.add_argument('--a',type=int,default=0); p.add_argument('--p',type=Path_fr); p.add_argument('--inner',action=ActionParser(parser=inner)); p.add_subclass_arguments(Base,'obj')
    return p
def run(k, exc, inst=False):
    STATE.update(n=0,k=k,exc=exc,stack=[],log=[])
    p=mk(); cwd=os.getcwd(); ns=argparse.Namespace
    try:
        cfg=p.parse_args(['--cfg','../A/main.yaml'])
        if inst: p.instantiate_classes(cfg)
        out='ok'
    except ArgumentError: out='AE'
    except BaseException as e: out=type(e).__name__
    bad=[]
    if os.getcwd()!=cwd: bad.append('cwd=%s'%os.getcwd()); os.chdir(cwd)
    if argparse.Namespace is not ns: bad.append('argparse'); argparse.Namespace=ns
    from jsonargparse._util import current_path_dir
    from jsonargparse._common import parent_parser, lenient_check, load_value_mode
    leaks=[n for n,v,d in (('current_path_dir',current_path_dir.get(),None),('parent_parser',parent_parser.get(),None),('lenient_check',lenient_check.get(),False),('load_value_mode',load_value_mode.get(),None)) if v is not d and v!=d]
    return out,bad,leaks
out,bad,leaks=run(None,None,True); n=STATE['n']; print('golden',out,bad,leaks,'seam calls',n)
res={}
for exc in (OSError(errno.EIO,'injected'), Fault('x'), Abort('x'), ValueError('v')):
    for k in range(1,n+1):
        out,bad,leaks=run(k,exc,True)
        site=STATE['log'][k-1][0] if k-1 < len(STATE['log']) else '?'
        if bad or leaks: res.setdefault((type(exc).__name__, site, tuple(bad and ['BAD']), tuple(leaks)),[]).append((k,out,bad))
for k,v in res.items(): print(k, len(v), v[0])
print('done')
