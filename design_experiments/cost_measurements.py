import os, time, sys, json
from typing import List, Dict, Optional
from jsonargparse import ArgumentParser, ActionConfigFile, ArgumentError
def mk():
    p = ArgumentParser(exit_on_error=False, prog='app')
    p.add_argument('--cfg', action=ActionConfigFile)
    p.add_argument('--a', type=int, default=0)
    p.add_argument('--l', type=List[int], default=[0])
    p.add_argument('--d', type=Dict[str,int], default={'z':0})
    p.add_argument('--g.x', type=int, default=-1)
    p.add_argument('--g.y', type=Optional[str], default=None)
    return p
t=time.time(); n=200
for i in range(n): p = mk()
print('build ms', (time.time()-t)/n*1000)
t=time.time()
for i in range(n): p.parse_args(['--a=1','--l+=3','--d.k=2','--g.x=4'])
print('parse_args ms', (time.time()-t)/n*1000)
t=time.time()
for i in range(n): p.parse_object({'a':1,'g':{'x':2}})
print('parse_object ms', (time.time()-t)/n*1000)
cfg = p.parse_args([])
t=time.time()
for i in range(n): p.dump(cfg)
print('dump ms', (time.time()-t)/n*1000)
t=time.time(); n=300
for i in range(n):
    r,w = os.pipe()
    pid = os.fork()
    if pid == 0:
        os.close(r)
        q = mk(); c = q.parse_args(['--a=1']); s = q.dump(c)
        os.write(w, json.dumps({'ok':True,'s':s}).encode()); os._exit(0)
    os.close(w); data = os.read(r, 65536); os.close(r); os.waitpid(pid,0)
print('fork+build+parse+dump ms', (time.time()-t)/n*1000)
# settrace cost
cnt=[0]
def tr(frame, ev, arg):
    if 'jsonargparse' in frame.f_code.co_filename:
        def lt(f,e,a):
            cnt[0]+=1
            return lt
        return lt
    return None
sys.settrace(tr)
t=time.time(); n=50
for i in range(n): p.parse_args(['--a=1','--l+=3','--d.k=2','--g.x=4'])
sys.settrace(None)
print('traced parse_args ms', (time.time()-t)/n*1000, 'line events per parse', cnt[0]/n)
