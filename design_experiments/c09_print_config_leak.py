from jsonargparse import ArgumentParser, ActionConfigFile, ArgumentError
p = ArgumentParser(exit_on_error=False)
p.add_argument('--cfg', action=ActionConfigFile)
p.add_argument('--a', type=int, default=1)
try:
    p.parse_args(['--print_config', '--a=x'])
except ArgumentError as e:
    print('ERR1', str(e)[:80])
print(hasattr(p, 'print_config'))
try:
    print(p.parse_args(['--a=2']))
except SystemExit as e:
    print('EXIT', e.code)
print(p.parse_args(['--a=3']))
