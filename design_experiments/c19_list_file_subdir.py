import os, shutil, sys
ROOT='/tmp/x19b/w2'
shutil.rmtree(ROOT, ignore_errors=True); os.makedirs(ROOT); os.chdir(ROOT)
from typing import List
from jsonargparse import ArgumentParser, ArgumentError
from jsonargparse.typing import Path_fr
os.makedirs('sub'); open('sub/list.txt','w').write('l1.txt\n'); open('sub/l1.txt','w').write('x'); open('l0.txt','w').write('x'); open('list0.txt','w').write('l0.txt\n')
p = ArgumentParser(exit_on_error=False); p.add_argument('--lst', type=List[Path_fr], enable_path=True)
for a in (['--lst','list0.txt'], ['--lst','sub/list.txt']):
    try:
        c = p.parse_args(a); print(a, [(x.relative, x.absolute) for x in c.lst], os.getcwd())
    except ArgumentError as e: print(a, 'AE', str(e).replace('\n',' | ')[:150], os.getcwd())
