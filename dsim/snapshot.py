"""Deep snapshots: value, exact type and identity of every nested container (C08 oracle)."""


def snap(x, ident=True, depth=0):
    from jsonargparse import Namespace

    i = id(x) if ident else 0
    if depth > 30:
        return ("deep",)
    if isinstance(x, Namespace):
        return ("Namespace", i, tuple((k, snap(v, ident, depth + 1)) for k, v in vars(x).items()))
    if isinstance(x, dict):
        # dict subclasses keep their own name (recreate_branches treats OrderedDict differently from dict)
        return ("dict" if type(x) is dict else type(x).__name__, i, tuple((repr(k), snap(v, ident, depth + 1)) for k, v in x.items()))
    if isinstance(x, (list, tuple)):
        # tuple subclasses (named tuples) keep their own name
        name = type(x).__name__ if type(x) in (list, tuple) else "tuple:" + type(x).__name__
        return (name, i, tuple(snap(v, ident, depth + 1) for v in x))
    if isinstance(x, (set, frozenset)):
        return (type(x).__name__, i, tuple(sorted(repr((type(v).__name__, v)) for v in x)))
    if x is None or isinstance(x, (int, float, str, bool, bytes)):
        return (type(x).__name__, repr(x))
    d = getattr(x, "__dict__", None)
    if d is not None and not isinstance(x, type) and not callable(x):
        try:
            inner = tuple((k, snap(v, ident, depth + 1)) for k, v in sorted(d.items()) if not k.startswith("_sim"))
        except Exception:
            inner = ()
        return ("obj:" + type(x).__name__, i, inner)
    return ("obj:" + type(x).__name__, i, ())


def diff(a, b, path=""):
    """None if equal, else (path shape, what) for the first difference"""
    if a == b:
        return None
    if a[0] != b[0]:
        return (path or "top", "type %s->%s" % (a[0], b[0]))
    k = a[0]
    if len(a) == 2:
        return (path or "top", "value")
    if k in ("Namespace", "dict", "OrderedDict", "defaultdict") or k.startswith("obj:"):
        ka, kb = [x[0] for x in a[2]], [x[0] for x in b[2]]
        if ka != kb:
            if set(ka) - set(kb):
                return (path + ">" + k, "key-removed")
            if set(kb) - set(ka):
                return (path + ">" + k, "key-added")
            return (path + ">" + k, "key-order")
        for (n, x), (_, y) in zip(a[2], b[2]):
            d = diff(x, y, path + ">" + k + "[k]")
            if d:
                return d
    elif k in ("list", "tuple") or k.startswith("tuple:"):
        if len(a[2]) != len(b[2]):
            return (path + ">" + k, "length")
        for x, y in zip(a[2], b[2]):
            d = diff(x, y, path + ">" + k + "[*]")
            if d:
                return d
    elif k in ("set", "frozenset"):
        if a[2] != b[2]:
            return (path + ">" + k, "members")
    if a[1] != b[1]:
        return (path + ">" + k, "identity")
    return (path or "top", "value")
