"""C19 - path types accept exactly what the mode says; relative paths follow the config.

part a: seeded file-system worlds (files/dirs with mode bits, FIFOs, symlinks, dangling links, paths through
        files, HOME) x probes Path(spelling, mode[, cwd]) judged by an independent stat-based oracle under the
        simulated unprivileged owner.
part b: config files nested up to 3 deep in different directories referencing each other and data files
        relatively; every path leaf must resolve against the directory of the file that spelled it, and the
        process cwd must be restored after success, rejection at any depth, and after a fault injected at any
        seam call of the parse (sweep)."""
import itertools
import json
import os
import stat as _stat

from .. import harness, rt, world, zoo
from ..harness import fork_call, run_op

LEVEL = "exploration"
RUNS = {"quick": 1500, "thorough": 30000}
WALL = {"quick": 150, "thorough": 1500}
RULE = (
    "part a: one run = one seeded file-system world (<= 16 objects with mode bits, FIFOs, symlinks, dangling links) x up to "
    "200 (spelling, mode, cwd) probes judged by a stat-based oracle; part b: one run = one seeded tree of config files nested "
    "up to 3 deep in different directories, parsed through one of six entry points, optionally sabotaged at some depth, then "
    "re-parsed with a fault at every seam call (sweep); distinct = distinct (part, object kinds / nesting shape, entry point, "
    "sabotage, outcome kinds, fired-fault set); non-trivial = (a) at least one probe was accepted and one rejected, "
    "(b) the parse changed directory at least once (nested file in another directory)"
)
ASSUMPTIONS = [
    "permission bits are evaluated for a simulated unprivileged owner (owner bits only; no ACLs, no directory search permission): the harness runs as root",
    "for 'c' modes probes are skipped when the lexical parent and the parent computed through symlinks differ (the statement does not say which is meant)",
    "injection into the chdir that restores the starting directory is exempt (it cannot be expected to succeed if it is made to fail)",
    "Windows path semantics, URLs and fsspec paths are out of scope",
]
PROBES = ["b-through-symlinked-dir", "a-accepted", "a-rejected", "a-skipped-ambiguous", "b-nested-chdir", "b-sabotaged-rejected", "b-sweep-site", "b-fault-fired", "chdir-restore-with-exception-in-flight", "b-depth3"]
ANCHOR_FILES = ("_util", "typing", "_typehints", "_core", "_actions")
NO_SHRINK = ("part", "world/cwd", "b", "b/*")
SHRINK_DICTS = ("world/files", "world/symlinks", "world/dirmodes", "world/env")

FLAGS = "fdrwxcFDRWX"


def valid_modes(maxlen=4):
    out = []
    for n in range(0, maxlen + 1):
        for combo in itertools.combinations_with_replacement(FLAGS, n):
            m = "".join(combo)
            cnt = {c: m.count(c) for c in set(m)}
            if any(v > (2 if c == "c" else 1) for c, v in cnt.items()):
                continue
            if "f" in m and "d" in m:
                continue
            out.append(m)
    return out


MODES = valid_modes()
FILE_MODES = [0o600, 0o400, 0o200, 0o700, 0o000, 0o644, 0o755, 0o100]
DIR_MODES = [0o700, 0o500, 0o300, 0o755, 0o000]


# ---------------------------------------------------------------------------------------------------
# generation


def gen_a(rng, tier):
    dirs = ["home", "d0"] + (["d1"] if rng.random() < 0.6 else []) + (["d0/sub"] if rng.random() < 0.5 else [])
    files, symlinks, fifos, dirmodes = {}, {}, [], {}
    objs = []
    n = rng.randint(4, 14)
    for i in range(n):
        d = rng.choice(dirs[1:])
        k = rng.random()
        name = "%s/o%d" % (d, i)
        if k < 0.35:
            files[name] = {"text": "x", "mode": rng.choice(FILE_MODES)}
        elif k < 0.55:
            dirs.append(name)
            dirmodes[name] = rng.choice(DIR_MODES)
        elif k < 0.65:
            fifos.append(name)
        elif k < 0.9 and objs:
            tgt = rng.choice(objs)
            symlinks[name] = os.path.relpath(tgt, os.path.dirname(name)) if rng.random() < 0.7 else "$W/" + tgt
        else:
            symlinks[name] = "nothing%d" % i
        objs.append(name)
    files["home/hf"] = {"text": "h", "mode": 0o600}
    cwd = rng.choice([d for d in dirs if d != "home" and dirmodes.get(d, 0o700) & 0o100] or ["d0"])
    if rng.random() < 0.15 and any(os.path.dirname(k) != "" for k in symlinks):
        pass
    spellings = set()
    for o in objs + ["home/hf"]:
        spellings.add(os.path.relpath(o, cwd))
        if rng.random() < 0.3:
            spellings.add("$W/" + o)
        if rng.random() < 0.2:
            spellings.add("./" + os.path.relpath(o, cwd))
        if rng.random() < 0.4:
            spellings.add(os.path.relpath(o, cwd) + "/under")
        if rng.random() < 0.2:
            spellings.add(os.path.relpath(o, cwd) + "/a/b")
        if rng.random() < 0.15:
            spellings.add(os.path.relpath(o, cwd) + "/../" + os.path.basename(rng.choice(objs)))
    spellings |= {"missing", "nodir/missing", "nodir/a/b", ".", "..", "-", "~", "~/hf", "~/nope", "$W/d0/missing"}
    spellings = sorted(spellings)
    nprobe = 200 if tier == "quick" else 500
    probes = []
    for _ in range(nprobe):
        sp = rng.choice(spellings)
        m = rng.choice(MODES) if rng.random() < 0.8 else rng.choice(["fr", "fc", "dw", "dc", "fcc", "dcc", "drw", "frw", "F", "D", "fx", "dx"])
        pr = {"s": sp, "m": m}
        if rng.random() < 0.1:
            pr["cwd"] = "$W/" + rng.choice(dirs)
        c = rng.random()
        if c < 0.06:
            pr["via"] = "parser"
        elif c < 0.10:
            pr["via"] = "pathlib"  # given as os.PathLike
        elif c < 0.14:
            pr["via"] = "copy"  # Path(Path(spelling, <weak mode>), mode): flags are re-checked for the same path
        probes.append(pr)
    w = {"dirs": dirs, "files": files, "symlinks": symlinks, "fifos": fifos, "dirmodes": dirmodes, "cwd": cwd, "env": {}}
    return {"part": "a", "world": w, "probes": probes, "faults": [], "tier": tier}


LINK = {}  # generation-time only: {"dir": <world dir reachable through the symlink 'ln'>}


def _spell(rng, target, base):
    """spelling of `target` (world-relative) as written inside a file living in `base`"""
    ld = LINK.get("dir")
    if ld and target.startswith(ld + "/") and rng.random() < 0.5:
        target = "ln/" + target[len(ld) + 1 :]  # the spelled path crosses a symlinked directory
    if rng.random() < 0.15:
        return "$W/" + target
    s = os.path.relpath(target, base)
    if rng.random() < 0.15:
        s = "./" + s
    return s


def gen_b(rng, tier):
    dirs = ["home", "run", "A", "A/B", "A/B/C", "cfgs", "dflt", "lists", "data", "data/deep"]
    files = {}
    nfile = [0]

    def data_file():
        nfile[0] += 1
        d = rng.choice(["data", "data/deep", "A", "A/B/C", "lists"])
        fn = "%s/f%d.txt" % (d, nfile[0])
        files[fn] = "x"
        return fn

    LINK.clear()
    if rng.random() < 0.35:
        LINK["dir"] = rng.choice(["A/B", "A/B/C", "cfgs", "data", "lists"])
    feats = set(f for f in ["inner", "deep", "obj", "lst", "dcf", "p"] if rng.random() < 0.6)
    if "deep" in feats:
        feats.add("inner")
    if not feats:
        feats.add("p")
    expected = {}  # leaf key -> [spelling, base dir]
    metas = {}  # key -> file (world relative) the sub-config was loaded from
    refs = []  # (kind, world-relative file that must exist, where spelled) candidates for sabotage
    D0 = rng.choice(["A", "A/B", "cfgs"])
    main = {}

    def leaf(key, base, cont, name, depth):
        t = data_file()
        sp = _spell(rng, t, base)
        cont[name] = sp
        expected[key] = [sp, base]
        refs.append(("data", t, depth, key.split(".")[0]))

    if "p" in feats:
        leaf("p", D0, main, "p", 0)
    if "inner" in feats:
        inner = {}
        inline = rng.random() < 0.25
        D1 = D0 if inline else rng.choice(["A/B", "A/B/C", "cfgs", "A"])
        leaf("inner.q", D1, inner, "q", 1)
        if "deep" in feats:
            deep = {}
            inline2 = rng.random() < 0.25
            D2 = D1 if inline2 else rng.choice(["A/B/C", "data", "cfgs"])
            leaf("inner.deep.r", D2, deep, "r", 2)
            if inline2:
                inner["deep"] = deep
            else:
                files[D2 + "/deep.yaml"] = json.dumps(deep)
                inner["deep"] = _spell(rng, D2 + "/deep.yaml", D1)
                metas["inner.deep"] = D2 + "/deep.yaml"
                refs.append(("cfg", D2 + "/deep.yaml", 2, "inner"))
        if rng.random() < 0.35:
            # a list-of-paths file referenced from inside the inner sub-config
            D5 = rng.choice(["lists", "A", "data/deep"])
            items = []
            for i in range(rng.randint(1, 2)):
                t = data_file()
                sp = _spell(rng, t, D5)
                items.append(sp)
                expected["inner.lst[%d]" % i] = [sp, D5]
                refs.append(("data", t, 2, "inner"))
            files[D5 + "/ilist.txt"] = ("\n".join(items) + "\n") if rng.random() < 0.6 else json.dumps(items)
            inner["lst"] = _spell(rng, D5 + "/ilist.txt", D1)
            refs.append(("cfg", D5 + "/ilist.txt", 2, "inner"))
        if rng.random() < 0.35:
            # a class spec file referenced from inside the inner sub-config
            D6 = rng.choice(["cfgs", "A/B", "data"])
            ia = {}
            leaf("inner.obj.init_args.data", D6, ia, "data", 2)
            files[D6 + "/iobj.yaml"] = json.dumps({"class_path": "dsim.simtypes.WithPath", "init_args": ia})
            inner["obj"] = _spell(rng, D6 + "/iobj.yaml", D1)
            metas["inner.obj"] = D6 + "/iobj.yaml"
            refs.append(("cfg", D6 + "/iobj.yaml", 2, "inner"))
        if inline:
            main["inner"] = inner
        else:
            files[D1 + "/inner.yaml"] = json.dumps(inner)
            main["inner"] = _spell(rng, D1 + "/inner.yaml", D0)
            metas["inner"] = D1 + "/inner.yaml"
            refs.append(("cfg", D1 + "/inner.yaml", 1, "inner"))
    if "obj" in feats:
        inline = rng.random() < 0.3
        D3 = D0 if inline else rng.choice(["A/B/C", "cfgs", "data"])
        ia = {}
        leaf("obj.init_args.data", D3, ia, "data", 1)
        o = {"class_path": "dsim.simtypes.WithPath", "init_args": ia}
        if inline:
            main["obj"] = o
        else:
            files[D3 + "/obj.yaml"] = json.dumps(o)
            main["obj"] = _spell(rng, D3 + "/obj.yaml", D0)
            metas["obj"] = D3 + "/obj.yaml"
            refs.append(("cfg", D3 + "/obj.yaml", 1, "obj"))
    if "lst" in feats:
        inline = rng.random() < 0.4
        D4 = D0 if inline else rng.choice(["lists", "A/B", "data"])
        items = []
        for i in range(rng.randint(1, 3)):
            t = data_file()
            sp = _spell(rng, t, D4)
            items.append(sp)
            expected["lst[%d]" % i] = [sp, D4]
            refs.append(("data", t, 1, "lst"))
        if inline:
            main["lst+" if rng.random() < 0.3 else "lst"] = items  # 'key+' inside a config appends to the (empty) default
        else:
            files[D4 + "/list.txt"] = ("\n".join(items) + "\n") if rng.random() < 0.6 else json.dumps(items)
            main["lst"] = _spell(rng, D4 + "/list.txt", D0)
            refs.append(("cfg", D4 + "/list.txt", 1, "lst"))
    files[D0 + "/main.yaml"] = json.dumps(main)
    opts = {"exit_on_error": rng.random() < 0.2}
    dcf_expected = {}
    if "dcf" in feats:
        dflt = {}
        t = data_file()
        sp = _spell(rng, t, "dflt")
        dflt["p"] = sp
        dcf_expected["p"] = [sp, "dflt"]
        files["dflt/d.yaml"] = json.dumps(dflt)
        opts["default_config_files"] = ["$W/dflt/d.yaml"]
    cwd = rng.choice(["run", "run", "A", "data", "lnrun"])
    symlinks = {}
    if LINK.get("dir"):
        symlinks["ln"] = LINK["dir"]
    if cwd == "lnrun":
        symlinks["lnrun"] = "run"
    cwd_real = "run" if cwd == "lnrun" else cwd
    entry = rng.choice(["args_cfg", "args_cfg", "path", "path_obj", "env", "defaults", "args_direct", "object"])
    mainsp = _spell(rng, D0 + "/main.yaml", cwd_real)
    op = {"entry": entry, "main": mainsp}
    if entry == "path_obj":
        # Path("main.yaml", cwd=<its directory>) used from an unrelated process cwd
        op["main"] = "main.yaml"
        op["cwd"] = "$W/" + D0
    if entry in ("args_direct", "object"):
        # top-level references re-spelled relative to the cwd (command line / object spellings follow the cwd)
        direct, exp2 = {}, {}
        for k, v in main.items():
            if not isinstance(v, str):  # inline value: its leaves were spelled relative to D0
                continue
            tgt = v[3:] if v.startswith("$W/") else os.path.normpath(os.path.join(D0, v))
            sp = _spell(rng, tgt, cwd_real)
            direct[k] = sp
            if k == "p":
                exp2["p"] = [sp, cwd_real]
        for k, v in expected.items():
            rk = k.split(".")[0].split("[")[0]
            if rk in direct and rk != "p":
                exp2[k] = v
        op["direct"] = direct
        expected = exp2
        metas = {k: v for k, v in metas.items() if k.split(".")[0] in direct}
        refs = [r for r in refs if r[3] in direct]
    if entry == "defaults":
        expected = dict(dcf_expected)
        metas = {}
    else:
        for k, v in dcf_expected.items():
            expected.setdefault(k, v)
    sabotage = None
    if rng.random() < 0.3 and refs and entry != "defaults":
        kind, f, depth, _rk = rng.choice(refs)
        how = rng.choice(["missing", "missing", "dir", "invalid"]) if kind == "cfg" else rng.choice(["missing", "dir", "unreadable"])
        sabotage = {"file": f, "how": how, "depth": depth, "kind": kind}
    w = {"dirs": dirs, "files": files, "symlinks": symlinks, "cwd": cwd, "env": {}}
    must_exist = sorted(set([D0 + "/main.yaml"] + [r[1] for r in refs] + (["dflt/d.yaml"] if "dcf" in feats else [])))
    b = {"feats": sorted(feats), "opts": opts, "op": op, "expected": expected, "must_exist": must_exist, "metas": metas, "sabotage": sabotage, "sweep": {"max_sites": 40 if tier == "quick" else 80, "errno": rng.choice(["EACCES", "ENOENT", "EIO", "EMFILE"]), "adversary": rng.choice(["delete", "chmod0", "mkdir", "truncate"])}}
    return {"part": "b", "world": w, "b": b, "faults": [], "tier": tier}


def generate(rng, tier):
    return gen_a(rng, tier) if rng.random() < 0.45 else gen_b(rng, tier)


# ---------------------------------------------------------------------------------------------------
# part a: oracle


def _st(p):
    try:
        return os.stat(p)
    except (OSError, ValueError):
        return None


def oracle_a(spelling, mode, cwd, home):
    """True/False = must accept / must reject; None = no verdict (ambiguous)"""
    if spelling == "-":
        return True
    a = spelling
    if a == "~" or a.startswith("~/"):
        a = home + a[1:]
    if not os.path.isabs(a):
        a = os.path.join(cwd, a)
    st = _st(a)
    exists = st is not None
    isdir = exists and _stat.S_ISDIR(st.st_mode)
    isfile = exists and (_stat.S_ISREG(st.st_mode) or _stat.S_ISFIFO(st.st_mode))

    def perm(bit):
        return exists and bool(st.st_mode & bit)

    if "c" in mode:
        lex = os.path.realpath(os.path.dirname(os.path.normpath(a)))
        via = os.path.realpath(os.path.join(a, ".."))
        if lex != via or ".." in a.split("/"):
            return None
        parent = lex
        if mode.count("c") == 2:
            while _st(parent) is None and parent != os.path.dirname(parent):
                parent = os.path.dirname(parent)
        pst = _st(parent)
        if pst is None or not _stat.S_ISDIR(pst.st_mode):
            return False
        if not pst.st_mode & 0o200:
            return False
        if "d" in mode and exists and not isdir:
            return False
        if "f" in mode and exists and not isfile:
            return False
        if os.path.lexists(a) and not exists:
            return None  # dangling symlink: 'creatable' is arguable either way
    elif "d" in mode or "f" in mode:
        if not exists:
            return False
        if "d" in mode and not isdir:
            return False
        if "f" in mode and not isfile:
            return False
    if "r" in mode and not perm(0o400):
        return False
    if "w" in mode and not perm(0o200):
        return False
    if "x" in mode and not perm(0o100):
        return False
    if "D" in mode and isdir:
        return False
    if "F" in mode and isfile:
        return False
    if "R" in mode and perm(0o400):
        return False
    if "W" in mode and perm(0o200):
        return False
    if "X" in mode and perm(0o100):
        return False
    return True


def _kind_of(spelling, cwd, home):
    a = spelling
    if a == "-":
        return "stdio"
    if a == "~" or a.startswith("~/"):
        a = home + a[1:]
    if not os.path.isabs(a):
        a = os.path.join(cwd, a)
    try:
        lst = os.lstat(a)
    except (OSError, ValueError):
        # missing: with parent? through a file?
        par = os.path.dirname(os.path.normpath(a))
        while par != "/" and not os.path.lexists(par):
            par = os.path.dirname(par)
        pst = _st(par)
        if pst is not None and not _stat.S_ISDIR(pst.st_mode):
            return "through-file"
        return "missing" if os.path.dirname(os.path.normpath(a)) == par else "missing-no-parent"
    if _stat.S_ISLNK(lst.st_mode):
        st = _st(a)
        if st is None:
            return "dangling"
        return "link-dir" if _stat.S_ISDIR(st.st_mode) else "link-fifo" if _stat.S_ISFIFO(st.st_mode) else "link-file"
    if _stat.S_ISDIR(lst.st_mode):
        return "dir"
    if _stat.S_ISFIFO(lst.st_mode):
        return "fifo"
    return "file"


def exec_a(sc, ctx):
    from jsonargparse import Path
    from jsonargparse._util import PathError

    sim, root = ctx.sim, ctx.root
    home = os.environ["HOME"]
    cwd0 = os.getcwd()
    acc = rej = 0
    parsers = {}
    sim.begin_op(0, "probes")
    kinds = set()
    for i, pr in enumerate(sc["probes"]):
        sp, m = pr["s"], pr["m"]
        cwd = pr.get("cwd") or cwd0
        with rt.suspended():
            exp = oracle_a(sp, m, cwd, home)
            kind = _kind_of(sp, cwd, home)
        if exp is None:
            # which answer is right is arguable - but the answer still has to be one of the two documented
            # outcomes: an object, or the documented error
            sim.probe("a-skipped-ambiguous")
            kw0 = {"cwd": pr["cwd"]} if "cwd" in pr else {}
            o = run_op(lambda: Path(sp, m, **kw0))
            if not (o.kind == "ret" or (o.kind == "exc" and isinstance(o.exc, PathError))):
                got = "exc:" + (type(o.exc).__name__ if o.exc is not None else o.kind)
                ctx.violation(
                    "mode-predicate",
                    {"part": "a", "flags": m, "kind": kind, "got": got, "expected": "object-or-PathError"},
                    "Path(%r, mode=%r) with cwd=%s on a %s: %s escaped (%s); whichever answer is right here, it is an object or the documented error" % (sp, m, sim.canon(cwd), kind, got, o.text[:200]),
                )
            continue
        kinds.add(kind)
        if pr.get("via") == "parser" and "cwd" not in pr:
            if m not in parsers:
                parsers[m] = zoo.build({"opts": {"exit_on_error": False}, "args": [{"k": "arg", "name": "x", "type": "pathmode:" + m}]}) if m else None
            if parsers[m] is None:
                continue
            o = run_op(lambda: parsers[m].parse_args(["--x=" + sp]))
            got = True if o.kind == "ret" else False if o.kind == "AE" else "exc:" + type(o.exc).__name__
            pobj = o.value.x if o.kind == "ret" else None
        else:
            kw = {"cwd": pr["cwd"]} if "cwd" in pr else {}
            arg = sp
            if pr.get("via") == "pathlib" and sp not in ("-",) and not sp.startswith("~"):
                import pathlib

                if str(pathlib.PurePosixPath(sp)) == sp:  # pathlib normalises './x', 'x/': only spellings it keeps
                    arg = pathlib.PurePosixPath(sp)
            elif pr.get("via") == "copy" and sp != "-":
                # the source object was built under another mode: none, the same flags in another order, or with
                # one 'c' more / less - the copy must be judged by the file system for ITS mode all the same
                m0 = ""
                pick = i % 4
                if pick == 1:
                    m0 = m[::-1]
                elif pick == 2 and "c" in m:
                    m0 = m + "c" if m.count("c") == 1 else m.replace("c", "", 1)
                elif pick == 3:
                    m0 = "".join(c for c in m if c in "fdc")
                o0 = run_op(lambda: Path(sp, m0, **kw))
                if o0.kind != "ret" and m0:
                    o0 = run_op(lambda: Path(sp, "", **kw))
                if o0.kind == "ret":
                    arg, kw = o0.value, {}
            o = run_op(lambda: Path(arg, m, **kw))
            if o.kind == "ret":
                got, pobj = True, o.value
            elif o.kind == "exc" and isinstance(o.exc, PathError):
                got, pobj = False, None
            else:
                got, pobj = "exc:" + (type(o.exc).__name__ if o.exc is not None else o.kind), None
        sim.emit("probe", sp, m, kind, str(got))
        if got is True:
            acc += 1
        elif got is False:
            rej += 1
        if got != exp:
            rel = _relevant(sp, m, cwd, home, {"cwd": pr["cwd"]} if "cwd" in pr else {})
            ctx.violation(
                "mode-predicate",
                {"part": "a", "flags": rel or m, "kind": kind, "got": str(got), "expected": str(exp)},
                "Path(%r, mode=%r) with cwd=%s on a %s: got %s, the file system says %s%s" % (sp, m, sim.canon(cwd), kind, got, exp, (" (" + o.text[:200] + ")") if o.text else ""),
            )
            continue
        if got is True and sp != "-":
            with rt.suspended():
                a = sp
                if a == "~" or a.startswith("~/"):
                    a = home + a[1:]
                want = os.path.realpath(a if os.path.isabs(a) else os.path.join(cwd, a))
                bad = None
                if pobj.relative != sp or str(pobj) != sp:
                    bad = "relative=%r str=%r for spelling %r" % (pobj.relative, str(pobj), sp)
                elif os.path.realpath(pobj.absolute) != want:
                    bad = "absolute=%r, expected realpath %r" % (pobj.absolute, want)
                elif os.fspath(pobj) != pobj.absolute:
                    bad = "fspath=%r != absolute=%r" % (os.fspath(pobj), pobj.absolute)
            if bad:
                ctx.violation("path-bookkeeping", {"part": "a", "kind": kind, "what": bad.split("=")[0]}, "Path(%r, %r): %s" % (sp, m, bad))
            elif i % 7 == 0:
                # the object's methods agree with its bookkeeping: call form, content of a readable regular file,
                # and the directory context is the path's directory and is left again
                bad2 = None
                if pobj() != pobj.absolute or pobj(absolute=False) != sp:
                    bad2 = "__call__: %r / %r" % (pobj(), pobj(absolute=False))
                elif kind in ("file", "link-file") and oracle_a(sp, "fr", cwd, home):
                    oc = run_op(lambda: pobj.get_content())
                    with rt.suspended():
                        try:
                            with open(want) as fh:
                                real = fh.read()
                        except OSError:
                            real = None
                    if real is not None and (oc.kind != "ret" or oc.value != real):
                        bad2 = "get_content: %s %r, file holds %r" % (oc.brief(), oc.value, real)
                # (not for spellings with '..': the context directory is normalised lexically, which differs from the
                # kernel's view when '..' follows a symlink - the statement does not say which is meant)
                if bad2 is None and "d" not in m and ".." not in sp and kind in ("file", "link-file", "dir", "link-dir"):
                    def _ctx():
                        with pobj.relative_path_context() as d:
                            return d, os.getcwd()
                    oc = run_op(_ctx)
                    if oc.kind == "ret":
                        exp_dir = os.path.realpath(os.path.dirname(pobj.absolute))
                        if os.path.realpath(oc.value[1]) != exp_dir:
                            bad2 = "relative_path_context: inside it the cwd is %r, expected %r" % (oc.value[1], exp_dir)
                    if os.getcwd() != cwd0:
                        bad2 = "relative_path_context: cwd not restored (%r)" % os.getcwd()
                        os.chdir(cwd0)
                if bad2:
                    ctx.violation("path-methods", {"part": "a", "kind": kind, "what": bad2.split(":")[0]}, "Path(%r, %r): %s" % (sp, m, bad2))
    if os.getcwd() != cwd0:
        ctx.violation("cwd-not-restored", {"part": "a"}, "cwd changed by Path(): %s" % os.getcwd())
    sim.probe("a-accepted", acc)
    sim.probe("a-rejected", rej)
    ctx.record("probes", "acc%d" % min(acc, 1) + "rej%d" % min(rej, 1))
    ctx.notes["kinds"] = sorted(kinds)
    ctx.nontrivial = acc > 0 and rej > 0


def _relevant(sp, m, cwd, home, kw):
    """smallest sub-mode on which code and oracle still disagree (names the flags that matter)"""
    from jsonargparse import Path
    from jsonargparse._util import PathError

    flags = sorted(set(m))
    best = m
    for n in range(1, len(m) + 1):
        for combo in itertools.combinations(range(len(m)), n):
            sub = "".join(m[i] for i in combo)
            with rt.suspended():
                exp = oracle_a(sp, sub, cwd, home)
                if exp is None:
                    continue
                try:
                    Path(sp, sub, **kw)
                    got = True
                except PathError:
                    got = False
                except BaseException as ex:
                    got = "exc:" + type(ex).__name__
            if got != exp:
                return sub
    return best


# ---------------------------------------------------------------------------------------------------
# part b


def b_parser(b):
    deep = {"opts": {"exit_on_error": b["opts"]["exit_on_error"]}, "args": [{"k": "arg", "name": "r", "type": "opt_path_fr", "default": None}]}
    inner = {"opts": {"exit_on_error": b["opts"]["exit_on_error"]}, "args": [{"k": "arg", "name": "q", "type": "opt_path_fr", "default": None}, {"k": "inner", "name": "deep", "spec": deep}]}
    inner["args"] += [
        {"k": "arg", "name": "lst", "type": "list_path_fr", "default": [], "enable_path": True},
        {"k": "arg", "name": "obj", "type": "opt_withpath", "default": None, "enable_path": True},
    ]
    args = [
        {"k": "cfg"},
        {"k": "arg", "name": "p", "type": "opt_path_fr", "default": None},
        {"k": "inner", "name": "inner", "spec": inner},
        {"k": "arg", "name": "obj", "type": "opt_withpath", "default": None, "enable_path": True},
        {"k": "arg", "name": "lst", "type": "list_path_fr", "default": [], "enable_path": True},
    ]
    return {"opts": dict(b["opts"]), "args": args}


def b_do(p, b):
    op = b["op"]
    e = op["entry"]
    if e == "args_cfg":
        return p.parse_args(["--cfg", op["main"]])
    if e == "path":
        return p.parse_path(op["main"])
    if e == "path_obj":
        from jsonargparse import Path as _P

        return p.parse_path(_P(op["main"], "fr", cwd=op["cwd"]))
    if e == "env":
        return p.parse_env({"APP_CFG": op["main"]})
    if e == "defaults":
        return p.get_defaults()
    if e == "args_direct":
        argv = []
        for k, v in op["direct"].items():
            argv.append("--%s=%s" % (k, v if isinstance(v, str) else json.dumps(v)))
        return p.parse_args(argv)
    if e == "object":
        return p.parse_object(json.loads(json.dumps(op["direct"])))
    raise ValueError(e)


def b_leaves(cfg):
    from jsonargparse import Namespace

    out, metas = {}, {}

    def walk(v, key):
        if isinstance(v, Namespace):
            for k, x in vars(v).items():
                if k == "__path__":
                    metas[key] = x
                elif not k.startswith("__"):
                    walk(x, key + "." + k if key else k)
        elif isinstance(v, dict):
            for k, x in v.items():
                if k == "__path__":
                    metas[key] = x
                elif not str(k).startswith("__"):
                    walk(x, key + "." + k if key else k)
        elif isinstance(v, list):
            for i, x in enumerate(v):
                walk(x, "%s[%d]" % (key, i))
        elif hasattr(v, "relative") and hasattr(v, "absolute"):
            out[key] = v

    walk(cfg, "")
    return out, metas


def b_run(sc, root, faults, judge_leaves):
    """runs in a sub-fork: build parser, parse, judge"""
    sim = rt.CUR
    sim.faults = [dict(f, _n=0, _done=False) for f in faults]
    ctx = harness.Ctx(sim, sc, sc.get("tier", "quick"), root)
    b = sc["b"]
    p = zoo.build(b_parser(b))
    cwd0 = os.getcwd()
    sim.begin_op(1, b["op"]["entry"])
    o = run_op(lambda: b_do(p, b))
    kinds = list(sim.op_kinds)
    nchdir = sum(1 for k in kinds if k == "os.chdir")
    sim.end_op()
    fired = [f[3] for f in sim.fired]
    with rt.suspended():
        cwd1 = os.getcwd()
        if cwd1 != cwd0:
            ctx.violation(
                "cwd-not-restored",
                {"part": "b", "outcome": o.kind, "fault": fired[0] if fired else "none", "entry": b["op"]["entry"] if not fired else "*"},
                "cwd before %s, after %s; outcome %s %s; faults %s" % (sim.canon(cwd0), sim.canon(cwd1), o.brief(), o.text[:200], sim.fired),
            )
            os.chdir(cwd0)
        if judge_leaves and not fired:
            sab = b.get("sabotage")
            healthy = all(os.path.isfile(os.path.join(root, f)) for f in b.get("must_exist", [])) and all(
                os.path.isfile(sp if os.path.isabs(sp) else os.path.join(root, base, sp)) for sp, base in b["expected"].values()
            )
            if sab is None and not healthy:
                sim.probe("b-premise-broken")  # e.g. a minimisation candidate that dropped a referenced file: no verdict
            elif sab is None:
                if o.kind != "ret":
                    msg = o.text or o.stderr
                    import re

                    mk = re.search(r'Parser key "([^"]+)"', msg)
                    ctx.violation(
                        "valid-nested-config-rejected",
                        {"part": "b", "key": mk.group(1).split(".")[0] if mk else "?", "via": "append-key" if "lst+" in json.dumps(sc["world"]["files"]) else "plain"},
                        "every referenced file exists, yet %s failed: %s %s" % (b["op"]["entry"], o.brief(), msg[:500]),
                    )
                else:
                    leaves, metas = b_leaves(o.value)
                    for key, (sp, base) in sorted(b["expected"].items()):
                        v = leaves.get(key)
                        if v is None:
                            ctx.violation("leaf-missing", {"part": "b", "key": key.split("[")[0], "entry": b["op"]["entry"]}, "expected a path at %s (spelled %r in %s); result leaves: %s" % (key, sp, base, sorted(leaves)))
                            continue
                        want = os.path.realpath(sp if os.path.isabs(sp) else os.path.join(root, base, sp))
                        got = os.path.realpath(v.absolute)
                        if v.relative != sp:
                            ctx.violation("relative-spelling", {"part": "b", "key": key.split("[")[0]}, "%s: relative=%r but it was spelled %r" % (key, v.relative, sp))
                        elif got != want:
                            against = "cwd" if got == os.path.realpath(os.path.join(cwd0, sp)) else "other-dir"
                            ctx.violation("resolved-against", {"part": "b", "key": key.split("[")[0], "against": against, "depth": key.count(".")}, "%s spelled %r inside %s resolved to %s, expected %s" % (key, sp, base, sim.canon(got), sim.canon(want)))
                    for key, f in sorted(b["metas"].items()):
                        m = metas.get(key)
                        if m is None or os.path.realpath(m.absolute) != os.path.realpath(os.path.join(root, f)):
                            ctx.violation("meta-path", {"part": "b", "key": key}, "__path__ of %s is %r, expected %s" % (key, getattr(m, "absolute", None), f))
            else:
                if o.kind == "ret":
                    ctx.violation("sabotaged-accepted", {"part": "b", "how": sab["how"], "kind": sab["kind"], "depth": sab["depth"]}, "referenced file %s is %s but the parse succeeded" % (sab["file"], sab["how"]))
                elif o.kind in ("AE", "exit"):
                    sim.probe("b-sabotaged-rejected")
    if nchdir:
        sim.probe("b-nested-chdir")
    if fired:
        sim.probe("b-fault-fired")
    return ctx.sub_result({"kinds": kinds, "brief": o.brief(), "nchdir": nchdir})


def exec_b(sc, ctx):
    sim, root = ctx.sim, ctx.root
    b = sc["b"]
    sab = b.get("sabotage")
    if sab:
        f = os.path.join(root, sab["file"])
        if sab["how"] == "missing":
            os.unlink(f)
        elif sab["how"] == "dir":
            os.unlink(f)
            os.mkdir(f)
        elif sab["how"] == "unreadable":
            os.chmod(f, 0o000)
        elif sab["how"] == "invalid":
            with open(f, "w") as fh:
                fh.write("{broken: [1\n")
    if any(k.count(".") >= 2 for k in b["expected"]):
        sim.probe("b-depth3")
    if "ln/" in json.dumps([b["op"], sc["world"]["files"]]):
        sim.probe("b-through-symlinked-dir")
    side = root + ".side"
    cwd = os.getcwd()
    st, gold = fork_call(b_run, sc, root, [], True)
    if st == "signal":
        ctx.violation("hang", {"part": "b"}, "parse died with signal %s" % gold)
        return
    if st != "ok":
        raise RuntimeError("golden parse failed: %r" % (gold,))
    ctx.absorb(gold)
    ctx.record(b["op"]["entry"], gold["brief"])
    ctx.notes["shape"] = [b["feats"], sorted(b["metas"]), (sab or {}).get("how"), (sab or {}).get("depth")]
    ctx.nontrivial = gold["nchdir"] > 0
    if getattr(ctx, "golden", False):
        return
    kinds = gold["kinds"]
    sites = list(range(len(kinds)))
    mx = b["sweep"]["max_sites"]
    if len(sites) > mx:
        step = len(sites) / float(mx)
        sites = sorted(set(int(i * step) for i in range(mx)))
    swept = set()
    need_restore = False
    world.copy_tree(root, side)
    try:
        for j in sites:
            kind = kinds[j]
            fts = []
            if kind.startswith("cb:"):
                fts.append({"type": "raise", "cls": "RuntimeError"})
            else:
                if kind in ("open", "io.read", "io.close", "os.stat", "os.getcwd", "os.chdir"):
                    fts.append({"type": "oserror", "errno": b["sweep"]["errno"]})
                if kind.startswith(("os.", "open")) and kind not in ("os.getcwd",):
                    fts.append({"type": "adversary", "action": b["sweep"]["adversary"]})
            for ft in fts:
                if need_restore:
                    world.restore(root, side)
                    os.chdir(cwd)
                    need_restore = False
                sim.probe("b-sweep-site")
                st, res = fork_call(b_run, sc, root, [{"op": 1, "site": "*", "k": j + 1, "fault": ft}], False)
                if ft["type"] == "adversary":
                    need_restore = True
                if st == "signal":
                    ctx.violation("hang", {"part": "b", "fault": ft["type"], "site": kind}, "parse with fault at call %d (%s) died with signal %s" % (j + 1, kind, res))
                    continue
                if st != "ok":
                    raise RuntimeError("sweep parse failed: %r" % (res,))
                ctx.absorb(res)
                swept.add("%s@%s=%s" % (ft["type"], kind, res["brief"]))
    finally:
        world._force_rmtree(side)
    ctx.notes["sweep"] = sorted(swept)


def execute(sc, ctx):
    if sc["part"] == "a":
        exec_a(sc, ctx)
    else:
        exec_b(sc, ctx)
