"""C09 - a parser's answers do not depend on what it was asked before.

History of operations on 1-3 reused parsers (R), every step compared with a fresh parser built from
the same spec in the same process (F) and, for selected steps, in a pristine process forked before the
history started (P).  Faults (user-code raise, OS error) are applied identically to all legs."""
import argparse
import contextvars
import copy
import json
import os
import sys

from .. import harness, rt, zoo
from ..harness import canon_outcome, run_op

LEVEL = "exploration"
RUNS = {"quick": 3000, "thorough": 60000}
WALL = {"quick": 150, "thorough": 1500}
RULE = (
    "one run = one seeded history (2-12 ops, 1-3 parsers, optional world edits and injected faults) executed on reused "
    "parsers and compared step by step with a fresh parser (same process) and a fresh parser in a pristine forked process; "
    "distinct = distinct (op-kind sequence, fired-fault set, outcome-kind sequence); non-trivial = at least two operations "
    "ran on the same reused parser and at least one earlier operation on it failed, exited, printed or was hit by a fault"
)
ASSUMPTIONS = [
    "outcome = result tree | ArgumentError text | exit status + stdout (stderr usage text and warnings excluded, as in the property's observe-at)",
    "inputs read at parser construction time (JSONARGPARSE_DEFAULT_ENV, prog) are never edited between steps",
    "stdin is not part of the histories (CachedStdin is documented caching)",
    "faults only at calls leaving the package (OS calls, user callbacks)",
]
PROBES = ["direct-call-on-subcommand-parser", "construction-env-differs", "history-after-failure", "pristine-leg", "world-edit", "fault-in-history"]
ANCHOR_FILES = ("_core", "_actions", "_typehints", "_common", "_link_arguments", "_completions")
NO_SHRINK = ("parsers/*/opts", "parsers/*/opts/*", "world", "pristine")
SHRINK_DICTS = ("world/files", "world/env")

FEATURES = ["l", "uif", "dd", "hd", "base", "bdef", "ilink", "nlink", "model", "fn", "probe", "cfg", "sub", "dcf", "env", "lst", "dcfh"]


def parser_spec(feats, eoe):
    args = [{"k": "arg", "name": "a", "type": "int", "default": 0}]
    if "cfg" in feats:
        args.insert(0, {"k": "cfg"})
    if "l" in feats:
        args.append({"k": "arg", "name": "l", "type": "list_int", "default": []})
    if "uif" in feats:
        args.append({"k": "arg", "name": "uif", "type": "union_int_float", "default": 1})
    if "dd" in feats:
        args.append({"k": "arg", "name": "dd", "type": "opt_D", "default": None})
    if "hd" in feats:
        args.append({"k": "class", "cls": "WithData", "name": "hd"})
    if "base" in feats:
        args.append({"k": "arg", "name": "base", "type": "opt_base", "default": None})
    if "bdef" in feats:
        # a subclass-typed argument whose default carries init_args that other classes do not accept
        args.append({"k": "arg", "name": "bdef", "type": "opt_base", "default": {"__lazy__": "Sub1", "kw": {"n": 2, "opts": {"a": 2.0}}}})
    if "fn" in feats:
        args.append({"k": "arg", "name": "fn", "type": "callable_base"})
    if "probe" in feats:
        args.append({"k": "arg", "name": "probe", "type": "opt_probe", "default": None})
    if "lst" in feats:
        args.append({"k": "arg", "name": "bases", "type": "list_base", "default": []})
    if "ilink" in feats:
        # a link applied at instantiation time: the instantiated `src` object feeds a parameter of the `m2` group
        args.append({"k": "arg", "name": "src", "type": "base", "default": {"__lazy__": "Sub1", "kw": {"n": 4}}})
        args.append({"k": "class", "cls": "Model", "name": "m2"})
        args.append({"k": "link", "src": "src", "dst": "m2.width", "fn": "base_n", "on": "instantiate"})
    if "nlink" in feats:
        # a parse-time link without compute_fn whose source is a whole group and whose target is an init arg of a
        # subclass argument: dict or group, depending on the class chosen in THIS call
        args.append({"k": "class", "cls": "DI", "name": "st"})
        args.append({"k": "subclass", "cls": "LBase", "name": "nb", "required": False})
        args.append({"k": "link", "src": "st", "dst": "nb.init_args.opts"})
    if "model" in feats:
        args.append({"k": "class", "cls": "Model", "name": "model"})
        args.append({"k": "link", "src": "a", "dst": "model.width", "fn": "double"})
    if "sub" in feats:
        fit = {"opts": {"exit_on_error": eoe}, "args": [{"k": "cfg"}, {"k": "arg", "name": "lr", "type": "float", "default": 0.1}, {"k": "arg", "name": "model", "type": "opt_model", "default": None}]}
        tst = {"opts": {"exit_on_error": eoe}, "args": [{"k": "arg", "name": "k", "type": "int", "default": 1}, {"k": "arg", "name": "name", "type": "str", "positional": True}]}
        args.append({"k": "subcommands", "required": False, "cmds": {"fit": fit, "test": tst}})
    opts = {"exit_on_error": eoe, "default_env": "env" in feats}
    if "dcf" in feats:
        # spelled absolute, or through '~' (HOME is read when the defaults are computed, i.e. at parse time)
        opts["default_config_files"] = ["~/hd.yaml"] if "dcfh" in feats else ["$W/dflt.yaml"]
    return {"opts": opts, "args": args, "feats": sorted(feats)}


ARGV = {
    "_": [[], ["--help"], ["--unknown=1"], ["--a=1"], ["--a=x"], ["--a", "7"], ["--a"]],
    "l": [["--l+=1"], ["--l=[1,2]"], ["--l+=x"], ["--l+=[3,4]"]],
    "uif": [["--uif=2"], ["--uif=2.0"], ["--uif=3.0"], ["--cfg", '{"uif": 2.0}']],
    "dd": [["--dd.u=3"], ['--dd={"u":2,"w":[1]}'], ["--dd.zz=1"], ["--dd=null"]],
    "hd": [["--hd.d.u=5", "--hd.d.w=[3.0]"], ["--hd.d.w=[1.5]"], ["--hd.d.u=6"], ["--hd.k=2"], ['--hd.d={"u": 8}'], ["--hd.d=null"], ["--hd.d.u=x"]],
    "base": [
        ["--base=dsim.simtypes_late.LateSub"],
        ["--base=LateSub"],
        ["--base=LateSub", "--base.late=2"],
        ["--base=Sub1"],
        ["--base.n=3"],
        ["--base=dsim.simtypes.Sub2", "--base.k=4"],
        ['--base={"class_path":"Base","init_args":{"n":"x"}}'],
        ["--base.help"],
        ["--base.help=Sub1"],
        ["--base.help=os.path"],
        ["--base.help=Sub1", "--base.n=2"],
        ["--base=Unrelated"],
        ["--base=Sub1", "--base.child=Base", "--base.child.n=4"],
        ["--base=no.such.Class"],
        ["--base=BadDefault"],
        ["--base=dsim.simtypes.BadDefault", "--base.n=1"],
    ],
    "bdef": [["--bdef=Base"], ["--bdef.n=7"], ["--bdef=dsim.simtypes.Sub2", "--bdef.k=1"], ["--bdef.opts.a=3"], ["--bdef=null"]],
    "nlink": [["--nb=TakesDI"], ["--nb=TakesDict"], ["--nb=dsim.simtypes.TakesDict", "--st.lr=5"], ["--st.steps=4", "--nb=dsim.simtypes.TakesDI"], ["--st.lr=x", "--nb=TakesDI"], ["--nb=TakesDict", "--unknown=1"]],
    "ilink": [["--src=Base"], ["--src.n=6"], ["--m2.name=k"], ["--src=Sub1", "--src.child=Base"], ["--m2.width=3"], ["--src=dsim.simtypes.Sub2"]],
    "fn": [["--fn=Sub1"], ["--fn.help=Sub1"], ["--fn.help=Base"], ["--fn.help"], ["--fn=Base", "--fn.tags=[2]"]],
    "probe": [["--probe=p:x"], ["--probe=bad"]],
    "lst": [["--bases+=Sub1"], ["--bases+=Base", "--bases.n=2"], ['--bases=[{"class_path":"Sub1"}]'], ["--bases+=Unrelated"]],
    "model": [["--model.width=4"], ["--model.base=Sub1"], ["--model.name=q"], ["--model.base.help=Sub1"]],
    "cfg": [
        ["--cfg", "c1.yaml"],
        ["--cfg", "bad.yaml"],
        ["--cfg", "nofile.yaml"],
        ["--cfg", '{"a": 5}'],
        ["--cfg=c2.yaml"],
        ["--print_config"],
        ["--print_config=skip_null"],
        ["--print_config=bogus"],
        ["--print_config=skip_default"],
    ],
    "sub": [
        ["fit", "--lr=0.3"],
        ["fit", "--lr=x"],
        ["fit", "--print_config"],
        ["fit", "--help"],
        ["test", "nm", "--k=3"],
        ["test"],
        ["bogus"],
        ["fit", "--model=Model", "--model.width=9"],
        ["fit", "--cfg", '{"lr": 0.7}'],
        ["fit", "--model.base=Sub1"],
    ],
}
OBJ = {
    "_": [{}, {"a": 3}, {"a": 3.0}, {"a": "x"}, {"zz": 1}, {"a": 4.0}],
    "l": [{"l": [1, 2]}, {"l": "x"}],
    "uif": [{"uif": 2}, {"uif": 2.0}, {"uif": 3.0}],
    "dd": [{"dd": {"u": 5}}, {"dd": {"u": "x"}}],
    "hd": [{"hd": {"d": {"u": 7}}}, {"hd": {"d": {"w": [2.0]}}}, {"hd": {"k": 3}}],
    "base": [{"base": {"class_path": "dsim.simtypes.BadDefault"}}, {"base": {"class_path": "dsim.simtypes.Sub1"}}, {"base": {"class_path": "dsim.simtypes.Sub1", "init_args": {"child": {"class_path": "Base"}}}}, {"base": {"class_path": "os.path"}}],
    "bdef": [{"bdef": {"class_path": "dsim.simtypes.Base"}}, {"bdef": {"init_args": {"n": 9}}}, {"bdef": {"class_path": "dsim.simtypes.Sub2", "init_args": {"k": 3}}}, {"bdef": "Base"}],
    "ilink": [{"src": {"class_path": "dsim.simtypes.Base", "init_args": {"n": 2}}}, {"m2": {"name": "o"}}],
    "nlink": [{"nb": {"class_path": "dsim.simtypes.TakesDict"}}, {"st": {"lr": 7}, "nb": {"class_path": "dsim.simtypes.TakesDI"}}, {"st": {"lr": 3}, "nb": {"class_path": "dsim.simtypes.TakesDict"}}, {"st": {"steps": "x"}, "nb": {"class_path": "dsim.simtypes.TakesDI"}}],
    "probe": [{"probe": "p:y"}, {"probe": 3}],
    "model": [{"model": {"name": "z"}}, {"model": {"base": {"class_path": "Sub2"}}}],
    "sub": [{"fit": {"lr": 0.2}}, {"fit": {"lr": 0.2}, "test": {"name": "n"}}, {"subcommand": "test", "test": {"name": "q"}}],
    "lst": [{"bases": [{"class_path": "Base"}]}],
}
ENVS = {
    "_": [{}, {"APP_A": "7"}, {"APP_A": "x"}],
    "l": [{"APP_L": "[1,2]"}, {"APP_L": "[1"}],
    "cfg": [{"APP_CFG": "c1.yaml"}, {"APP_CFG": "nofile.yaml"}],
    "sub": [{"APP_SUBCOMMAND": "fit", "APP_FIT__LR": "0.4"}],
    "base": [{"APP_BASE": "Sub1"}, {"APP_BASE": "BadDefault"}],
    "bdef": [{"APP_BDEF": "Base"}, {"APP_BDEF": "dsim.simtypes.Sub2"}],
}
STR = {
    "_": ["a: 4\n", "a: 4.0\n", "a: 3.0\n", "a: [\n", "{}", "zz: 1"],
    "uif": ["uif: 2\n", "uif: 2.0\n", "uif: 3\n", "uif: 3.0\n"],
    "l": ["a: 2\nl: [5]\n", '{"l": [1, "x"]}'],
    "base": ["base: Sub1\n", '{"base": {"init_args": {"n": 3}}}', '{"base": {"init_args": {"child": "Base"}}}', "base: null\n"],
    "bdef": ["bdef: Base\n", "bdef:\n  class_path: dsim.simtypes.Sub2\n", '{"bdef": {"init_args": {"n": 3}}}', '{"bdef": {"init_args": {"opts": {"b": 1.0}}}}'],
    "model": ['{"model": {"base": {"init_args": {"n": 1}}}}', '{"model": {"name": "w"}}'],
    "dd": ['{"dd": {"u": 4}}', '{"dd": {"w": [2.5]}}'],
    "hd": ['{"hd": {"d": {"u": 4}}}', '{"hd": {"d": {"w": [2.5]}}}'],
    "sub": ["fit:\n  lr: 0.9\n", '{"fit": {"model": {"init_args": {"width": 2}}}}'],
    "lst": ['{"bases": [{"init_args": {"n": 2}}]}'],
    "probe": ["probe: p:z\n"],
}
STRS = [x for v in STR.values() for x in v]
FILE_ALTS = {
    "dflt.yaml": ["a: 9\n", "a: 11\n", "", "a: x\n", "a: [\n"],
    "c1.yaml": ["a: 5\n", "a: 6\n", "a: bad\n"],
}
DUMP_KW = [{}, {"skip_none": False}, {"format": "json"}, {"skip_default": True}]


def _pool(table, feats, rng):
    keys = ["_"] + [f for f in feats if f in table]
    if rng.random() < 0.1:
        keys.append(rng.choice(list(table)))
    return keys


def gen_argv(rng, feats):
    frags = []
    keys = _pool(ARGV, feats, rng)
    if rng.random() < 0.012:
        return [rng.choice(["--print_shtab=bash", "--print_shtab=zsh", "--print_shtab=nope"])]
    n = rng.choice([1, 1, 1, 2, 2, 3])
    for _ in range(n):
        frags.append(rng.choice(ARGV[rng.choice(keys)]))
    frags.sort(key=lambda f: 1 if f and not f[0].startswith("-") else 0)  # subcommand fragment last
    out = []
    seen_sub = False
    for f in frags:
        if f and not f[0].startswith("-"):
            if seen_sub:
                continue
            seen_sub = True
        out += f
    return out


def gen_obj(rng, feats):
    o = {}
    keys = _pool(OBJ, feats, rng)
    for _ in range(rng.choice([1, 1, 2])):
        o.update(copy.deepcopy(rng.choice(OBJ[rng.choice(keys)])))
    return o


def gen_op(rng, pi, feats):
    c = rng.random()
    if "sub" in feats and c < 0.05:
        # the application calls a subcommand's parser OBJECT directly (it holds a reference to it): whatever that
        # leaves behind must not show in later calls on the parser it belongs to
        return {"p": pi, "kind": "args", "on": "fit", "argv": rng.choice([["--print_config"], ["--print_config", "--lr=0.3"], ["--lr=0.3"], ["--lr=x"], ["--help"], [], ["--print_config=bogus"], ["--print_config", "--lr=x"]])}
    if c < 0.45:
        op = {"p": pi, "kind": "args", "argv": gen_argv(rng, feats)}
        if rng.random() < 0.08:
            op["kw"] = rng.choice([{"defaults": False}, {"env": True}, {"with_meta": False}])
        return op
    if c < 0.55:
        return {"p": pi, "kind": "obj", "obj": gen_obj(rng, feats)}
    if c < 0.61:
        return {"p": pi, "kind": "str", "text": rng.choice(STR[rng.choice(_pool(STR, feats, rng))]) if rng.random() < 0.7 else json.dumps(gen_obj(rng, feats))}
    if c < 0.67:
        e = {}
        for _ in range(rng.choice([1, 1, 2])):
            e.update(rng.choice(ENVS[rng.choice(_pool(ENVS, feats, rng))]))
        return {"p": pi, "kind": "env", "env": e}
    if c < 0.71:
        return {"p": pi, "kind": "path", "path": rng.choice(["c1.yaml", "bad.yaml", "nofile.yaml", "c2.yaml"])}
    if c < 0.77:
        return {"p": pi, "kind": "defaults"}
    if c < 0.84:
        return {"p": pi, "kind": "dump", "argv": gen_argv(rng, feats), "kw": rng.choice(DUMP_KW)}
    if c < 0.89:
        return {"p": pi, "kind": "validate", "obj": gen_obj(rng, feats)}
    if c < 0.95:
        return {"p": pi, "kind": "inst", "argv": gen_argv(rng, feats)}
    if rng.random() < 0.6:
        fn = rng.choice(sorted(FILE_ALTS))
        return {"p": pi, "kind": "edit", "file": fn, "text": rng.choice(FILE_ALTS[fn])}
    return {"p": pi, "kind": "edit", "env": rng.choice(["APP_A", "APP_L"]), "value": rng.choice([None, "3", "x", "[4]"])}


def _dflt(rng, parsers):
    if rng.random() < 0.2:
        return ""
    common = None
    for p in parsers:
        if "dcf" in p["feats"]:
            common = set(p["feats"]) if common is None else common & set(p["feats"])
    d = {"a": 9}
    for f, v in (("probe", "p:d"), ("l", [4]), ("bdef", "Base"), ("base", "Sub1"), ("dd", {"u": 6}), ("hd", {"d": {"u": 2}})):
        if common and f in common and rng.random() < 0.5:
            d[f] = v
    return json.dumps(d) + "\n"


BATTERY = [
    {"kind": "args", "argv": []},
    {"kind": "args", "argv": ["--a=x"]},
    {"kind": "args", "argv": ["--a=3"]},
    {"kind": "defaults"},
    {"kind": "dump", "argv": [], "kw": {}},
    {"kind": "obj", "obj": {"zz": 1}},
    {"kind": "inst", "argv": []},
    {"kind": "inst", "argv": ["--a=2"]},
]


def generate(rng, tier):
    big = tier == "thorough"
    nparsers = rng.choice([1, 1, 2, 3])
    parsers = []
    for _ in range(nparsers):
        feats = set(f for f in FEATURES if rng.random() < 0.5)
        if "model" in feats and "sub" in feats and rng.random() < 0.5:
            feats.discard("sub")
        parsers.append(parser_spec(feats, eoe=rng.random() < 0.3))
    nops = rng.randint(2, 12)
    ops = []
    for _ in range(nops):
        pi = rng.randrange(nparsers)
        ops.append(gen_op(rng, pi, parsers[pi]["feats"]))
    if rng.random() < 0.15 and len(ops) >= 3:
        # the variable that is read when a parser is CONSTRUCTED changes for a while and is restored: calls made
        # inside the window must not make the parser remember it
        a = rng.randrange(0, len(ops) - 1)
        b = rng.randrange(a + 1, len(ops))
        ops.insert(a, {"p": 0, "kind": "edit", "env": "JSONARGPARSE_DEFAULT_ENV", "value": rng.choice(["true", "false"])})
        ops.insert(b + 1, {"p": 0, "kind": "edit", "env": "JSONARGPARSE_DEFAULT_ENV", "value": "__initial__"})
        ops += [{"p": rng.randrange(nparsers), "kind": "args", "argv": []}, {"p": rng.randrange(nparsers), "kind": "env", "env": {"APP_A": "7"}}]
    dcf_parsers = [i for i, p in enumerate(parsers) if "dcf" in p["feats"]]
    if dcf_parsers and rng.random() < 0.35:
        # an output-printing call, then the default config file changes, then calls that read defaults again:
        # whatever the printing call cached from the old file shows
        pi = rng.choice(dcf_parsers)
        first = rng.choice([{"kind": "args", "argv": ["--help"]}, {"kind": "args", "argv": ["--print_config"]}, {"kind": "defaults"}, {"kind": "dump", "argv": [], "kw": {"skip_default": True}}])
        ops += [dict(first, p=pi), {"p": pi, "kind": "edit", "file": "dflt.yaml", "text": rng.choice(FILE_ALTS["dflt.yaml"])}, {"p": pi, "kind": "defaults"}, {"p": pi, "kind": "args", "argv": []}]
    base_parsers = [i for i, p in enumerate(parsers) if "base" in p["feats"]]
    if base_parsers and rng.random() < 0.3:
        # help -> a call that makes a new subclass exist (imports its module) -> help again: what the first help
        # computed (lists of known subclasses, expanded defaults) must not be what the second one shows
        pi = rng.choice(base_parsers)
        h = rng.choice([["--help"], ["--base.help"], ["--help"]])
        ops += [{"p": pi, "kind": "args", "argv": h}, {"p": pi, "kind": "args", "argv": ["--base=dsim.simtypes_late.LateSub"]}, {"p": pi, "kind": "args", "argv": rng.choice([["--help"], h])}, {"p": pi, "kind": "args", "argv": ["--base=LateSub"]}]
    home_parsers = [i for i, p in enumerate(parsers) if "dcf" in p["feats"] and "dcfh" in p["feats"]]
    if home_parsers and rng.random() < 0.5:
        # HOME changes between calls (a service started under one account dropping to another, tests that patch
        # HOME): '~' in default_config_files means the home directory at the time of the call
        pi = rng.choice(home_parsers)
        first = rng.choice([{"kind": "args", "argv": []}, {"kind": "defaults"}, {"kind": "args", "argv": ["--a=3"]}, {"kind": "args", "argv": ["--help"]}])
        ops += [dict(first, p=pi), {"p": pi, "kind": "edit", "env": "HOME", "value": "$W/home2"}, {"p": pi, "kind": "defaults"}, {"p": pi, "kind": "args", "argv": []}]
        if rng.random() < 0.5:
            ops += [{"p": pi, "kind": "edit", "env": "HOME", "value": "$W/home"}, {"p": pi, "kind": "args", "argv": []}]
    if rng.random() < (0.6 if not big else 1.0):
        pi = rng.randrange(nparsers)
        ops += [dict(b, p=pi) for b in rng.sample(BATTERY, rng.randint(2, 4))]
    nops = len(ops)
    world = {
        "dirs": ["home", "home2", "run"],
        "files": {
            "home/hd.yaml": "a: 11\n",
            "home2/hd.yaml": "a: 22\n",
            "run/c1.yaml": "a: 5\n" + ("base: Sub1\n" if rng.random() < 0.5 and all("base" in p["feats"] for p in parsers) else ""),
            "run/c2.yaml": "a: 2\n" + ("base:\n  class_path: dsim.simtypes.Sub1\n  init_args:\n    n: 2\n" if any("base" in p["feats"] for p in parsers) else "") + ("bdef: Base\n" if any("bdef" in p["feats"] for p in parsers) else ""),
            "run/bad.yaml": "a: [1\n",
            "dflt.yaml": _dflt(rng, parsers),
        },
        "cwd": "run",
        "env": {},
    }
    if rng.random() < 0.2:
        world["env"]["JSONARGPARSE_DEFAULT_ENV"] = rng.choice(["true", "false"])
    if rng.random() < 0.3:
        world["env"]["APP_A"] = rng.choice(["3", "x"])
    # pristine leg: every step in thorough; last step, help steps and two sampled steps in quick
    if big:
        pristine = list(range(nops))
    else:
        pristine = {nops - 1}
        for i, op in enumerate(ops):
            if any(".help" in a or a == "--help" for a in op.get("argv", [])):
                pristine.add(i)
        for _ in range(2):
            pristine.add(rng.randrange(nops))
        pristine = sorted(pristine)
    sc = {"parsers": parsers, "ops": ops, "world": world, "faults": [], "pristine": pristine, "tier": tier}
    sc["want_faults"] = rng.random() < 0.45
    return sc


def place_faults(sc, rng, golden):
    sc.pop("want_faults", None)
    if not golden:
        return
    cands = [(int(i), j, k) for i, kinds in golden.items() for j, k in enumerate(kinds)]
    if not cands:
        return
    cbs = [c for c in cands if c[2].startswith("cb:")]
    for _ in range(rng.choice([1, 1, 2])):
        i, j, kind = rng.choice(cbs) if cbs and rng.random() < 0.5 else rng.choice(cands)
        if kind.startswith("cb:"):
            ft = {"type": "raise", "cls": rng.choice(["ValueError", "TypeError", "RuntimeError", "KeyError", "OSError", "SimAbort"])}
        else:
            ft = {"type": "oserror", "errno": rng.choice(["EACCES", "ENOENT", "EIO", "EMFILE"])}
        sc["faults"].append({"op": i, "site": "*", "k": j + 1, "fault": ft})


# ---------------------------------------------------------------------------------------------------


def _subst(spec, root):
    return json.loads(json.dumps(spec).replace("$W", root))


def do_op(p, op):
    k = op["kind"]
    if op.get("on"):
        p = p._subcommands_action._name_parser_map[op["on"]]
    if k == "args":
        return p.parse_args(list(op["argv"]), **op.get("kw", {}))
    if k == "obj":
        return p.parse_object(copy.deepcopy(op["obj"]))
    if k == "str":
        return p.parse_string(op["text"])
    if k == "env":
        return p.parse_env(dict(op["env"]))
    if k == "path":
        return p.parse_path(op["path"])
    if k == "defaults":
        return p.get_defaults()
    if k == "dump":
        return p.dump(p.parse_args(list(op["argv"])), **op.get("kw", {}))
    if k == "validate":
        return p.validate(p.parse_object(copy.deepcopy(op["obj"]), _skip_validation=True))
    if k == "inst":
        return p.instantiate_classes(p.parse_args(list(op["argv"])))
    raise ValueError(k)


_CTXVARS = None


def ctxvars():
    """every module-level ContextVar of jsonargparse, with the value it had in the warm image"""
    global _CTXVARS
    if _CTXVARS is None:
        import importlib

        found = {}
        for m in ("_common", "_actions", "_typehints", "_link_arguments", "_util", "_parameter_resolvers", "_completions", "_namespace", "_core", "_signatures", "_loaders_dumpers"):
            mod = importlib.import_module("jsonargparse." + m)
            for n, v in vars(mod).items():
                if isinstance(v, contextvars.ContextVar) and v.name not in found:
                    try:
                        found[v.name] = (v, v.get())
                    except LookupError:
                        found[v.name] = (v, LookupError)
        _CTXVARS = found
    return _CTXVARS


_GLOBALS0 = {}


def module_containers():
    """(module.name -> size) of every module-level dict / list / set of jsonargparse"""
    import sys as _sys

    out = {}
    for mn, mod in list(_sys.modules.items()):
        if mn == "jsonargparse" or mn.startswith("jsonargparse."):
            for n, v in list(vars(mod).items()):
                if isinstance(v, (dict, list, set)) and not n.startswith("__"):
                    out[mn.replace("jsonargparse.", "") + "." + n] = len(v)
    return out


def globals_residue():
    now = module_containers()
    return sorted(k for k, v in now.items() if _GLOBALS0.get(k) != v)


def ctx_residue():
    out = []
    for name, (var, init) in sorted(ctxvars().items()):
        try:
            cur = var.get()
        except LookupError:
            cur = LookupError
        if cur is not init and cur != init:
            out.append(name)
    return out


def _action_attr_diff(R, F, noise=()):
    """name of the first action attribute that differs between the reused and a fresh parser; declared
    defaults first, the lazily added --print_shtab action ignored, the scratch attribute _check_type_kwargs last"""
    from jsonargparse._completions import ShtabAction

    ra = [a for a in R._actions if not isinstance(a, ShtabAction)]
    fa = [a for a in F._actions if not isinstance(a, ShtabAction)]
    if len(ra) != len(fa):
        return "actions-count"

    def differs(x, y):
        if isinstance(x, (str, int, float, bool, type(None), list, dict, tuple, set)) or hasattr(x, "__dict__"):
            try:
                return json.dumps(harness.canon_value(x)) != json.dumps(harness.canon_value(y))
            except Exception:
                return False
        return False

    late = None
    for a, b in zip(ra, fa):
        va, vb = vars(a), vars(b)
        if "default" in va and "default" in vb and "action-attr:default" not in noise and differs(va["default"], vb["default"]):
            return "action-attr:default"
    for a, b in zip(ra, fa):
        va, vb = vars(a), vars(b)
        if set(va) != set(vb):
            return "action-attr:" + sorted(set(va) ^ set(vb))[0]
        for n in va:
            if ("action-attr:" + n) in noise or n == "default":
                continue
            if differs(va[n], vb[n]) and not callable(va[n]):
                if n == "_check_type_kwargs":
                    late = late or "action-attr:" + n
                    continue
                return "action-attr:" + n
    return late


def residue_pre(R, cwd0, ns0):
    """residue visible before the next operation starts (does not need a fresh parser)"""
    if R is not None and hasattr(R, "print_config"):
        return "parser.print_config"
    if R is not None and "--print_shtab" in R._option_string_actions:
        from jsonargparse._completions import ShtabAction

        if not any(isinstance(a, ShtabAction) for a in R._actions):
            return "shtab-prepared-parser"  # option registered, its action removed: left behind by --print_shtab
    if os.getcwd() != cwd0:
        return "cwd"
    if argparse.Namespace is not ns0:
        return "argparse.Namespace"
    return None


def residue_tag(pre, R, F):
    from jsonargparse._actions import _ActionHelpClassPath

    if pre:
        return pre
    if R is not None and F is not None:
        # plain configuration attributes of the parser object itself (exit_on_error, default_env, parser_mode ...)
        vr, vf = vars(R), vars(F)
        for n in sorted(vr):
            x = vr[n]
            if n in ("args", "_dsim_spec") or n not in vf:
                continue
            if x is None or isinstance(x, (bool, int, str, float)) or (isinstance(x, (list, set, tuple)) and all(isinstance(e, (str, int)) for e in x)):
                if x != vf[n]:
                    return "parser-attr:" + n
    if R is not None and F is not None:
        # attributes that differ even between two fresh parsers of the same spec say nothing
        noise = set()
        spec = getattr(F, "_dsim_spec", None)
        if spec is not None:
            with rt.suspended():
                F2 = zoo.build(spec)
            for _ in range(6):
                d = _action_attr_diff(F, F2, noise)
                if not d or d == "actions-count":
                    break
                noise.add(d)
        d = _action_attr_diff(R, F, noise)
        if d:
            return d
    if _ActionHelpClassPath.sub_add_kwargs:
        return "class-attr:_ActionHelpClassPath.sub_add_kwargs"
    g = globals_residue()
    if g:
        return "module-global:" + ",".join(g)[:120]
    cv = ctx_residue()
    if cv:
        return "ctxvar:" + ",".join(cv)
    return "none"


def _arm(sim, i):
    for f in sim.faults:
        if f.get("op") == i:
            f["_n"] = 0
            f["_done"] = False


def _pristine_eval(sc, i, env, root):
    """runs in a fork of the pristine image: fresh parser, op i, same fault plan"""
    sim = rt.CUR
    os.environ.clear()
    os.environ.update(env)
    op = sc["ops"][i]
    _arm(sim, i)
    sim.op = i
    sim.op_kinds = []
    P = zoo.build(_subst(sc["parsers"][op["p"]], root))
    o = run_op(lambda: do_op(P, op))
    return {"out": canon_outcome(o), "brief": o.brief(), "fired": sim.fired, "seam_calls": sim.seam_calls, "hits": sorted(harness.REACH.hits)}


def _pristine_server(sc, root, req_r, resp_w):
    f = os.fdopen(req_r, "r")
    for line in f:
        req = json.loads(line)
        st, val = harness.fork_call(_pristine_eval, sc, req["i"], req["env"], root)
        harness._write_all(resp_w, (json.dumps({"st": st, "val": val}) + "\n").encode())
    os._exit(0)


def execute(sc, ctx):
    sim = ctx.sim
    root = ctx.root
    golden = getattr(ctx, "golden", False)
    ctxvars()
    _GLOBALS0.clear()
    _GLOBALS0.update(module_containers())
    cwd0, ns0 = os.getcwd(), argparse.Namespace
    # pristine server: forked before any parser exists or any operation ran
    srv = None
    if sc.get("pristine") and not golden:
        req_r, req_w = os.pipe()
        resp_r, resp_w = os.pipe()
        pid = os.fork()
        if pid == 0:
            try:
                os.close(req_w)
                os.close(resp_r)
                _pristine_server(sc, root, req_r, resp_w)
            finally:
                os._exit(0)
        os.close(req_r)
        os.close(resp_w)
        srv = (pid, req_w, os.fdopen(resp_r, "r"))
    try:
        _run_history(sc, ctx, sim, root, golden, srv, cwd0, ns0)
    finally:
        if srv:
            os.close(srv[1])
            srv[2].close()
            os.waitpid(srv[0], 0)


def _run_history(sc, ctx, sim, root, golden, srv, cwd0, ns0):
    specs = [_subst(s, root) for s in sc["parsers"]]
    R = [None] * len(specs)
    dirty = [False] * len(specs)  # an earlier op on this parser failed / exited / printed / was faulted
    used = [0] * len(specs)
    pristine = set(sc.get("pristine") or [])
    CE = "JSONARGPARSE_DEFAULT_ENV"
    ce0 = os.environ.get(CE)
    built_under = [None] * len(specs)
    for i, op in enumerate(sc["ops"]):
        pi = op["p"]
        kind = op["kind"]
        if kind == "edit":
            sim.begin_op(i, "edit")
            if "file" in op:
                with open(os.path.join(root, "run" if op["file"].startswith("c") else "", op["file"]), "w") as f:
                    f.write(op["text"])
            elif op.get("value") == "__initial__":
                if ce0 is None:
                    os.environ.pop(op["env"], None)
                else:
                    os.environ[op["env"]] = ce0
            elif op.get("value") is None:
                os.environ.pop(op["env"], None)
            else:
                os.environ[op["env"]] = op["value"].replace("$W", root)
            sim.probe("world-edit")
            ctx.record("edit", "-")
            continue
        if R[pi] is None:
            sim.begin_op(i, "build")
            R[pi] = zoo.build(specs[pi])
            built_under[pi] = os.environ.get(CE)
        sim.begin_op(i, kind)
        if op.get("on"):
            sim.probe("direct-call-on-subcommand-parser")
        if hasattr(R[pi], "print_config"):
            sim.probe("print-config-pending-at-op-start")
        if dirty[pi]:
            sim.probe("history-after-failure")
        if used[pi] >= 1 and dirty[pi]:
            ctx.nontrivial = True
        nfired = len(sim.fired)
        _arm(sim, i)
        pre = residue_pre(R[pi], cwd0, ns0)
        oR = run_op(lambda: do_op(R[pi], op))
        cR = canon_outcome(oR)
        faulted = len(sim.fired) > nfired
        if faulted:
            sim.probe("fault-in-history")
        ctx.record(kind, oR.brief() + ("!" if faulted else ""))
        used[pi] += 1
        if oR.kind != "ret" or faulted or oR.stdout:
            dirty[pi] = True
        if golden:
            continue
        if os.environ.get(CE) != built_under[pi]:
            # a fresh parser built NOW would legitimately read another construction-time environment: no verdict
            sim.probe("construction-env-differs")
            sim.emit("legs", "-", "construction-env-differs")
            continue
        # F leg: fresh parser, same process, same fault plan
        saved = sim.op_kinds
        sim.op_kinds = []
        _arm(sim, i)
        nf = len(sim.fired)
        try:
            F = zoo.build(specs[pi])
            F._dsim_spec = specs[pi]
            oF = run_op(lambda: do_op(F, op))
        finally:
            sim.op_kinds = saved
            firedF = [(x[1], x[3], x[4]) for x in sim.fired[nf:]]
            del sim.fired[nf:]
        firedR = [(x[1], x[3], x[4]) for x in sim.fired[nfired:]]
        if firedR != firedF:
            # the k-th seam call of the fresh leg is not the call the fault hit on the reused parser (the legs
            # differ in calls that are not part of any outcome): the fault plans are not comparable, no verdict
            sim.probe("fault-misaligned")
            sim.emit("legs", "F", "misaligned")
            continue
        cF = canon_outcome(oF)
        sim.emit("legs", "F", cR == cF)
        if cR != cF:
            tag = residue_tag(pre, R[pi], F)
            ctx.violation(
                "reused-vs-fresh",
                {"op": kind, "leg": "F", "reused": oR.brief(), "fresh": oF.brief(), "residue": tag},
                "step %d %s on a reused parser: %s\nfresh parser, same process: %s\nresidue: %s" % (i, json.dumps(op), json.dumps(cR)[:500], json.dumps(cF)[:500], tag),
            )
            return
        if srv and i in pristine:
            os.write(srv[1], (json.dumps({"i": i, "env": dict(os.environ)}) + "\n").encode())
            resp = json.loads(srv[2].readline())
            sim.probe("pristine-leg")
            if resp["st"] != "ok":
                raise RuntimeError("pristine leg failed: %r" % (resp,))
            ctx.sub_runs += 1
            ctx.sub_seam_calls += resp["val"]["seam_calls"]
            ctx.sub_hits.update(resp["val"]["hits"])
            if [(x[1], x[3], x[4]) for x in resp["val"]["fired"]] != firedR:
                sim.probe("fault-misaligned")
                sim.emit("legs", "P", "misaligned")
                continue
            cP = resp["val"]["out"]
            sim.emit("legs", "P", cR == cP)
            if json.loads(json.dumps(cR)) != cP:
                tag = residue_tag(pre if pre != 'parser.print_config' else None, None, None)
                if "dsim.simtypes_late" in sys.modules and (tag == "none" or tag.startswith("ctxvar:")) and "LateSub" in json.dumps([op, cR, cP]):
                    # the class registry of the interpreter: an earlier call imported the module that defines it
                    tag = "module-imported-by-history:dsim.simtypes_late"
                ctx.violation(
                    "reused-vs-pristine",
                    {"op": kind, "leg": "P", "reused": oR.brief(), "fresh": resp["val"]["brief"], "residue": tag},
                    "step %d %s in a process with history: %s\nfresh parser in a pristine process: %s\nresidue: %s" % (i, json.dumps(op), json.dumps(cR)[:600], json.dumps(cP)[:600], tag),
                )
                return
