#!/bin/bash
# usage: runsuite.sh <repo dir> ; prints tests in baseline stable_pass that do not pass
cd "$1" && timeout 1800 /venv/bin/python -m pytest -ra -q -p no:cacheprovider --timeout=900 --continue-on-collection-errors --junitxml=/tmp/junit-$$.xml > /tmp/suite-$$.log 2>&1
/venv/bin/python - <<PY
import json, xml.etree.ElementTree as ET
base=json.load(open('/root/.vp/BASELINE.json'))
stable=set(base['stable_pass'])
t=ET.parse('/tmp/junit-$$.xml'); passed=set(); other={}
for tc in t.iter('testcase'):
    name=tc.get('classname')+'::'+tc.get('name')
    bad=[c.tag for c in tc if c.tag in('failure','error','skipped')]
    if bad: other[name]=bad[0]
    else: passed.add(name)
missing=sorted(stable-passed)
print('passed',len(passed),'stable_pass',len(stable),'stable not passing',len(missing))
for m in missing[:20]: print('  ',m, other.get(m))
PY
tail -3 /tmp/suite-$$.log
