import argparse
import os
import sys


def main():
    ap = argparse.ArgumentParser(prog="dsim")
    sub = ap.add_subparsers(dest="cmd", required=True)
    sub.add_parser("worker")
    c = sub.add_parser("check")
    c.add_argument("prop")
    c.add_argument("--tier", default=os.environ.get("VERIF_TIER", "quick"), choices=["quick", "thorough"])
    c.add_argument("--runs", type=int)
    c.add_argument("--jobs", type=int)
    c.add_argument("--no-evidence", action="store_true")
    c.add_argument("--keep-going", action="store_true")
    r = sub.add_parser("replay")
    r.add_argument("path")
    r.add_argument("--events", action="store_true")
    s = sub.add_parser("selftest")
    s.add_argument("--seeds", type=int, default=400)
    s.add_argument("props", nargs="*")
    sub.add_parser("selfcheck")
    ca = sub.add_parser("corpus-add")
    ca.add_argument("replay")
    ca.add_argument("status", choices=["known", "fixed"])
    ca.add_argument("name")
    ca.add_argument("--note", default="")
    o = sub.add_parser("one")
    o.add_argument("prop")
    o.add_argument("seed", type=int)
    o.add_argument("--tier", default="quick")
    o.add_argument("--events", action="store_true")
    o.add_argument("--raw", action="store_true", help="seed is used as is, not derived")
    a = ap.parse_args()
    if a.cmd == "worker":
        from .worker import serve

        serve()
        return 0
    from . import engine

    if a.cmd == "check":
        seed = int(os.environ.get("VERIF_SEED", "0") or 0)
        return engine.check(a.prop, a.tier, seed, runs=a.runs, jobs=a.jobs, write_evidence=not a.no_evidence, keep_going=a.keep_going)
    if a.cmd == "replay":
        return engine.replay(a.path, events=a.events)
    if a.cmd == "corpus-add":
        import json

        e = json.load(open(a.replay))
        e["status"] = a.status
        e["note"] = a.note
        d = os.path.join(engine.VERIF, "replays", "corpus", e["property"])
        os.makedirs(d, exist_ok=True)
        with open(os.path.join(d, a.name + ".json"), "w") as f:
            json.dump(e, f, indent=1, sort_keys=True)
            f.write("\n")
        print("added", os.path.join(d, a.name + ".json"))
        return 0
    if a.cmd == "one":
        import json

        sd = a.seed if a.raw else engine.seed_for(int(os.environ.get("VERIF_SEED", "0") or 0), a.prop, a.seed)
        pool = engine.Pool(jobs=1, hashseeds=[sd % 4])
        try:
            resp = pool.run([{"prop": a.prop, "seed": sd, "tier": a.tier, "events": a.events}])[0]
        finally:
            pool.close()
        print(json.dumps(resp, indent=1)[:20000])
        return 0
    if a.cmd == "selftest":
        from . import selftest

        return selftest.run(a.props, a.seeds)
    if a.cmd == "selfcheck":
        from . import selftest

        return selftest.selfcheck()
    return 2


if __name__ == "__main__":
    sys.exit(main())
