"""C08 - parse, validate, dump, save, merge and instantiate never modify what they are given.

Histories of 1-6 operations on one parser; before and after every operation a deep snapshot (value, exact
type, identity of every nested container) of each argument, every declared default, cwd, os.environ, the
argparse module and the std streams.  One operation per history is additionally re-executed from an
identical forked state with a fault at each of its seam calls (sweep)."""
import argparse
import copy
import json
import os
import sys

from .. import harness, rt, world, zoo
from ..harness import fork_call, run_op
from ..snapshot import diff, snap

LEVEL = "exploration"
RUNS = {"quick": 5000, "thorough": 80000}
WALL = {"quick": 150, "thorough": 1500}
RULE = (
    "one run = one seeded history of 1-6 operations over {parse_args (also with namespace= and defaults=False), parse_object (dict / Namespace / with cfg_base), parse_string, parse_env, "
    "parse_path, validate, dump, save, merge_config, strip_unknown, instantiate_classes, get_defaults, format_help, "
    "instantiate_twice} with accepted and rejected inputs, each judged by deep snapshot before/after; one operation per run is "
    "re-executed from a forked copy of the state with a fault at each of its seam calls; distinct = distinct (op-kind sequence, "
    "outcome kinds, fired-fault set); non-trivial = at least one operation received a caller-owned nested container (or moved "
    "the cwd, or had a fault fire inside it)"
)
ASSUMPTIONS = [
    "stdin replacement by CachedStdin is documented caching and not counted as a modification",
    "injection into the chdir that restores the starting directory is exempt",
    "faults only at calls leaving the package (OS calls, user callbacks), never at arbitrary bytecode boundaries",
    "get_defaults() is compared by value and type (it returns new objects by contract); action.default also by identity",
]
PROBES = ["reentered", "arg-with-nested-container", "op-failed", "op-moved-cwd", "sweep-site", "fault-fired", "instantiate-twice-objects", "chdir-restore-with-exception-in-flight", "ctor-aborted"]
ANCHOR_FILES = ("_core", "_namespace", "_typehints", "_util", "_common")
NO_SHRINK = ("parser/opts", "parser/opts/*", "world", "world/*")
SHRINK_DICTS = ("ops/*/obj", "ops/*/env", "ops/*/base", "ops/*/ns")

FEATS = ["l", "ll", "d", "dl", "t", "st", "tl", "x", "n", "p", "inner", "dd", "dg", "obj", "objs", "dobjs", "odobjs", "holder", "model", "pr", "sd", "dcf", "ostr", "sub", "subreq", "pos", "lho", "tho"]


def parser_spec(feats, eoe):
    A = [{"k": "cfg"}, {"k": "arg", "name": "a", "type": "float", "default": 0}]

    def arg(name, type_, default, **kw):
        A.append(dict({"k": "arg", "name": name, "type": type_, "default": default}, **kw))

    if "l" in feats:
        arg("l", "list_float", [1, 2])
    if "ll" in feats:
        arg("ll", "list_list_float", [[1]])
    if "d" in feats:
        arg("d", "dict_str_float", {"k": 1})
    if "dl" in feats:
        arg("dl", "dict_str_list_float", {"k": [1]})
    if "t" in feats:
        arg("t", "tuple_lf_i", {"__tuple__": [[1, 2], 3]})
    if "st" in feats:
        arg("st", "optset_int", None)
    if "tl" in feats:
        arg("tl", "list_tuple_ff", [{"__tuple__": [1, 2]}])
    if "x" in feats:
        arg("x", "any", None)
    if "ostr" in feats:
        arg("ostr", "optstr", "declared")
    if "n" in feats:
        arg("n", "float", [1], nargs="+")
    if "p" in feats:
        arg("p", "opt_path_fr", None)
    if "pr" in feats:
        arg("pr", "opt_probe", None)
    if "inner" in feats:
        A.append({"k": "inner", "name": "inner", "spec": {"opts": {"exit_on_error": eoe}, "args": [{"k": "arg", "name": "q", "type": "opt_path_fr", "default": None}, {"k": "arg", "name": "v", "type": "list_float", "default": [0]}]}})
    if "dd" in feats:
        arg("dd", "opt_D", None)
    if "dg" in feats:
        A.append({"k": "class", "cls": "D", "name": "dg"})
    if "obj" in feats:
        arg("obj", "opt_base", {"__lazy__": "Sub1", "kw": {"n": 2, "opts": {"a": 2.0}}})
    if "objs" in feats:
        arg("objs", "list_base", [])
    if "dobjs" in feats:
        arg("dobjs", "dict_str_base", {})
    if "odobjs" in feats:
        arg("odobjs", "odict_str_base", None)
    if "holder" in feats:
        arg("holder", "opt_holder", None)
    if "lho" in feats:
        arg("lho", "list_opt_holder", [])
    if "tho" in feats:
        arg("tho", "tuple_holder_int", None)
    if "model" in feats:
        A.append({"k": "class", "cls": "Model", "name": "model"})
        A.append({"k": "link", "src": "a", "dst": "model.width", "fn": "double"})
    if "sub" in feats:
        # subcommands: get_subcommands() is a getter that normalises the config it is handed (adds the implied
        # choice, deletes the settings of the other subcommands), so every caller has to hand it a copy
        A.append(
            {
                "k": "subcommands",
                "required": "subreq" in feats,
                "cmds": {
                    "fit": {"opts": {"exit_on_error": eoe}, "args": [{"k": "arg", "name": "lr", "type": "float", "default": 0.1}, {"k": "arg", "name": "tags", "type": "list_float", "default": [1]}]},
                    "test": {"opts": {"exit_on_error": eoe}, "args": [{"k": "arg", "name": "n", "type": "int", "default": 1}, {"k": "arg", "name": "ck", "type": "opt_base", "default": None}]},
                },
            }
        )
    if "pos" in feats and "sub" not in feats:
        # optional positional with a declared list default: argparse hands the default OBJECT to the action
        # (a positional cannot be declared with default=; set_defaults is the way to give it one)
        A.append({"k": "arg", "name": "pos", "type": "list_float", "nargs": "?", "positional": True})
        A.append({"k": "set_defaults", "values": {"pos": [1, 2]}})
    opts = {"exit_on_error": eoe}
    if "sd" in feats:
        vals = {}
        if "l" in feats:
            vals["l"] = [7, 8]
        if "d" in feats:
            vals["d"] = {"s": 2}
        if "t" in feats:
            vals["t"] = {"__tuple__": [[4], 5]}
        if vals:
            A.append({"k": "set_defaults", "values": vals})
    if "dcf" in feats:
        opts["default_config_files"] = ["$W/dflt.yaml"]
    return {"opts": opts, "args": A, "feats": sorted(feats)}


SUB1 = {"class_path": "dsim.simtypes.Sub1", "init_args": {"n": 1, "opts": {"z": 1}, "child": {"class_path": "dsim.simtypes.Base", "init_args": {"tags": [5]}}}}
OBJ = {
    "_": [{"a": 1}, {"a": "bad"}, {"zz": 1}, {}],
    "l": [{"l": [1, 2]}, {"l": [1, "x"]}],
    "ll": [{"ll": [[1, 2], [3]]}],
    "d": [{"d": {"k": 1}}],
    "dl": [{"dl": {"k": [1, 2]}}],
    "t": [{"t": {"__tuple__": [[1, 2], 3]}}, {"t": [[1, 2], 3]}, {"t": {"__ntuple__": [[1, 2], 3]}}],
    "pos": [{"pos": [3, 4]}],
    "st": [{"st": {"__set__": [1, 2]}}],
    "tl": [{"tl": [{"__tuple__": [1, 2]}]}, {"tl": [[1, 2]]}, {"tl": [{"__ntuple__": [1, 2]}]}],
    "x": [{"x": {"q": [1, {"__tuple__": [2, [3]]}]}}, {"x": {"class_path": "dsim.simtypes.Base"}}],
    "n": [{"n": ["1", "2"]}, {"n": [1]}],
    "p": [{"p": "A/pa.txt"}, {"p": "A/missing.txt"}],
    "pr": [{"pr": "p:x"}, {"pr": 3}],
    "inner": [{"inner": {"v": [1, 2]}}, {"inner": "A/B/inner.yaml"}, {"inner": "A/B/innerbad.yaml"}],
    "dd": [{"dd": {"u": "2", "w": [1]}}, {"dd": {"u": "x"}}],
    "dg": [{"dg": {"w": [3, 4]}}],
    "obj": [{"obj": SUB1}, {"obj": {"class_path": "dsim.simtypes.Base"}}, {"obj": "dsim.simtypes.Base"}, {"obj": {"class_path": "os.path"}}, {"obj": {"class_path": "dsim.simtypes.Sub2", "init_args": {"path": "A/pa.txt"}}}],
    "objs": [{"objs": [{"class_path": "dsim.simtypes.Base", "init_args": {"tags": [1]}}]}, {"objs": [SUB1, SUB1]}],
    "dobjs": [{"dobjs": {"k": {"class_path": "dsim.simtypes.Base", "init_args": {"tags": [1]}}, "j": SUB1}}],
    "odobjs": [{"odobjs": {"__odict__": [["k", {"class_path": "dsim.simtypes.Base", "init_args": {"tags": [1]}}], ["j", SUB1]]}}],
    "lho": [{"lho": [None, {"class_path": "dsim.simtypes.Holder"}]}, {"lho": [{"class_path": "dsim.simtypes.Holder"}, None]}, {"lho": [None, None, {"class_path": "dsim.simtypes.Holder", "init_args": {"m": 2}}]}],
    "tho": [{"tho": [{"class_path": "dsim.simtypes.Holder"}, 3]}, {"tho": {"__tuple__": [{"class_path": "dsim.simtypes.Holder"}, 3]}}],
    "holder": [{"holder": {"class_path": "dsim.simtypes.Holder"}}, {"holder": {"class_path": "dsim.simtypes.Holder", "init_args": {"inner": {"class_path": "dsim.simtypes.Base", "init_args": {"tags": [2]}}}}}],
    "model": [{"model": {"base": {"class_path": "dsim.simtypes.Sub1", "init_args": {"opts": {"a": 3}}}}}, {"model": {"name": "q"}}],
    "sub": [{"subcommand": "fit", "fit": {"lr": 0.5, "tags": [2, 3]}}, {"test": {"n": 2}}, {"subcommand": "test", "test": {"ck": {"class_path": "dsim.simtypes.Base", "init_args": {"tags": [1]}}}}, {"fit": {"lr": "bad"}}, {"subcommand": "nope"}],
}
# un-normalised configs a caller can build by hand or with merge_config: settings of several subcommands with or
# without the explicit choice (only ever put into a config directly, {"__ns__": ..} -> Namespace)
RAWSUB = [
    {"subcommand": "fit", "fit": {"__ns__": {"lr": 0.5, "tags": [2.0]}}, "test": {"__ns__": {"n": 2, "ck": None}}},
    {"subcommand": "test", "fit": {"__ns__": {"lr": 0.5, "tags": [2.0]}}, "test": {"__ns__": {"n": 2, "ck": None}}},
    {"subcommand": None, "fit": {"__ns__": {"lr": 0.5, "tags": [2.0]}}},
    {"subcommand": None, "fit": {"__ns__": {"lr": 0.5, "tags": [2.0]}}, "test": {"__ns__": {"n": 2, "ck": None}}},
    {"subcommand": "fit", "fit": {"__ns__": {"lr": 0.5, "tags": [2.0]}}},
]
ARGV = {
    "_": [[], ["--a=x"], ["--a=3"], ["--cfg", "A/main.yaml"], ["--cfg", "A/bad.yaml"], ["--print_config"], ["--help"], ["--zz=1"]],
    "l": [["--l+=3"], ["--l=[4,5]"]],
    "t": [["--t=[[1,2],3]"]],
    "obj": [["--obj.tags+=4"], ["--obj=Base"], ["--obj=Sub1", "--obj.child=Base"]],
    "objs": [["--objs+=Sub1", '--objs.opts={"a":2}']],
    "dd": [["--dd.u=3"], ["--dd.u=x"]],
    "dg": [["--dg.u=4"], ["--dg.w=[5]"], ["--dg.u=x"]],
    "x": [['--x={"class_path":"dsim.simtypes.Base"}']],
    "n": [["--n", "1", "2"]],
    "inner": [["--inner", "A/B/inner.yaml"], ["--inner.v=[3]"]],
    "holder": [["--holder=Holder"], ["--holder=Holder", "--holder.inner=Base"]],
    "model": [["--model.base=Sub1"], ["--model.name=z"]],
    "p": [["--p=A/pa.txt"]],
    "pos": [["[5, 6]"], []],
    "sub": [["fit"], ["fit", "--lr=0.3", "--tags+=4"], ["test", "--n=3"], ["test", "--ck=Base", "--ck.tags+=2"], ["fit", "--lr=bad"], ["nope"]],
}
# a caller-owned namespace= with NESTED groups (what an application that pre-fills a namespace hands over)
NSNEST = {
    "_": [{"a": 1.0}],
    "dd": [{"dd": {"__ns__": {"u": 1, "w": [1.0]}}}],
    "dg": [{"dg": {"__ns__": {"u": 1, "w": [2.0]}}}],
    "inner": [{"inner": {"__ns__": {"q": None, "v": [1.0]}}}],
    "model": [{"model": {"__ns__": {"name": "m", "width": 1}}}],
    "obj": [{"obj": {"__ns__": {"class_path": "dsim.simtypes.Base", "init_args": {"__ns__": {"n": 1.0, "tags": [1.0]}}}}}],
    "sub": [{"fit": {"__ns__": {"lr": 0.5, "tags": [2.0]}}}],
}
KINDS = ["parse_object_plain_ns", "inst_dict", "dump_dict", "parse_object", "parse_object", "parse_object_ns", "parse_object_base", "parse_args", "parse_args_ns", "parse_args_ns_nodefaults", "parse_args_nodefaults", "parse_path_obj", "save_obj", "inst_empty", "parse_string", "parse_env", "parse_path", "validate", "dump", "save", "merge", "strip", "inst", "defaults", "help", "inst2"]


def _pick(rng, table, feats):
    keys = ["_"] + [f for f in feats if f in table]
    return copy.deepcopy(rng.choice(table[rng.choice(keys)]))


def gen_obj(rng, feats, n=None):
    o = {}
    for _ in range(n or rng.randint(1, 3)):
        o.update(_pick(rng, OBJ, feats))
    return o


def gen_argv(rng, feats):
    out = []
    picks = [_pick(rng, ARGV, feats) for _ in range(rng.choice([1, 1, 2]))]
    picks.sort(key=lambda a: bool(a) and not a[0].startswith("-"))  # a subcommand and its options come last
    for a in picks:
        out += a
        if a and not a[0].startswith("-"):
            break
    return out


def gen_op(rng, feats):
    kind = rng.choice(KINDS)
    op = {"kind": kind}
    if kind in ("parse_object", "parse_object_ns", "parse_object_plain_ns", "inst_dict", "dump_dict"):
        op["obj"] = gen_obj(rng, feats)
    elif kind == "parse_object_base":
        op["obj"] = gen_obj(rng, feats)
        op["base"] = gen_obj(rng, feats)
    elif kind in ("parse_args", "parse_args_ns", "parse_args_nodefaults"):
        op["argv"] = gen_argv(rng, feats)
        if kind == "parse_args_ns":
            op["ns"] = gen_obj(rng, feats)
    elif kind == "parse_args_ns_nodefaults":
        op["argv"] = gen_argv(rng, feats)
        op["ns"] = {}
        for _ in range(rng.randint(1, 3)):
            op["ns"].update(_pick(rng, NSNEST, feats))
    elif kind == "parse_string":
        o = gen_obj(rng, [f for f in feats if f not in ("t", "st", "tl", "x")])
        op["text"] = json.dumps(o) if rng.random() < 0.9 else "a: [1\n"
    elif kind == "parse_env":
        op["env"] = rng.choice([{"APP_A": "1", "APP_L": "[1,2]"}, {"APP_A": "x"}, {"APP_CFG": "A/main.yaml"}, {}] + ([{"APP_SUBCOMMAND": "fit", "APP_FIT__LR": "0.4"}, {"APP_TEST__N": "3"}] if "sub" in feats else []))
    elif kind == "parse_path":
        op["path"] = rng.choice(["A/main.yaml", "A/bad.yaml", "A/nofile.yaml", "A/plain.yaml"])
    elif kind == "parse_path_obj":
        # a Path object whose recorded cwd is not the process cwd (built with cwd=, or before the app changed directory)
        op["path"] = rng.choice(["main.yaml", "bad.yaml", "plain.yaml", "B/inner.yaml"])
        op["cwd"] = "$W/A"
    elif kind == "inst_empty":
        pass
    elif kind in ("validate", "dump", "save", "save_obj", "merge", "strip", "inst", "inst2"):
        # how the config the op receives is obtained (not judged), then raw caller-owned containers put into it
        op["base"] = {"obj": gen_obj(rng, feats), "skip_validation": rng.random() < 0.3} if rng.random() < 0.7 else {"argv": gen_argv(rng, feats)}
        op["raw"] = _pick(rng, OBJ, feats) if rng.random() < 0.6 else {}
        if "sub" in feats and rng.random() < 0.5:
            op["raw"] = copy.deepcopy(rng.choice(RAWSUB))
        if kind == "merge":
            op["base2"] = {"obj": gen_obj(rng, feats), "skip_validation": True}
        if kind == "dump":
            op["kw"] = rng.choice([{}, {"skip_validation": True}, {"skip_none": False}, {"format": "json"}, {"skip_default": True}])
        if kind in ("save", "save_obj"):
            op["kw"] = {"overwrite": True, "multifile": rng.random() < 0.5}
            op["path"] = "out/saved.yaml" if kind == "save" else "saved.yaml"
            op["cwd"] = "$W/out"
    return op


def generate(rng, tier):
    feats = set(f for f in FEATS if rng.random() < 0.45)
    if not feats:
        feats.add(rng.choice(FEATS))
    spec = parser_spec(feats, eoe=rng.random() < 0.2)
    nops = rng.randint(1, 6)
    ops = [gen_op(rng, spec["feats"]) for _ in range(nops)]
    files = {
        "A/main.yaml": json.dumps(dict({"a": 2}, **({"p": "pa.txt"} if "p" in feats else {}), **({"inner": "B/inner.yaml"} if "inner" in feats else {}))),
        "A/plain.yaml": "a: 4\n",
        "A/pa.txt": "x",
        "A/B/inner.yaml": "q: qb.txt\nv: [1, 2]\n",
        "A/B/qb.txt": "x",
        "A/bad.yaml": json.dumps(dict({"a": 2}, **({"inner": "B/innerbad.yaml"} if "inner" in feats else {"a": "bad"}))),
        "A/B/innerbad.yaml": "q: missing.txt\n",
        "dflt.yaml": "" if rng.random() < 0.25 else json.dumps(dict({"a": 3}, **({"l": [5, 6]} if "l" in feats else {}), **({"dl": {"m": [2]}} if "dl" in feats else {}), **({"obj": {"class_path": "dsim.simtypes.Base", "init_args": {"tags": [3]}}} if "obj" in feats else {}), **({"ostr": rng.choice([None, "fromfile"])} if "ostr" in feats else {}))),
    }
    w = {"dirs": ["home", "run", "A/B", "out"], "files": files, "cwd": ".", "env": {}}
    sweep = {"op": rng.randrange(nops), "max_sites": 40 if tier == "quick" else 80, "cb_cls": rng.choice(["ValueError", "TypeError", "RuntimeError", "KeyError", "OSError", "SimAbort"]), "errno": rng.choice(["EACCES", "ENOENT", "EIO", "EMFILE"]), "adversary": rng.choice(["delete", "chmod0", "mkdir", "truncate"])}
    if rng.random() < 0.35:
        sweep = None
    return {"parser": spec, "world": w, "ops": ops, "sweep": sweep, "faults": [], "tier": tier}


# ---------------------------------------------------------------------------------------------------


def realise(v):
    """scenario JSON -> caller-owned python value ({__tuple__}/{__set__} markers)"""
    if isinstance(v, dict):
        if "__tuple__" in v:
            return tuple(realise(x) for x in v["__tuple__"])
        if "__ntuple__" in v:
            from ..simtypes import NT2

            return NT2(*(realise(x) for x in v["__ntuple__"]))
        if "__set__" in v:
            return set(v["__set__"])
        if "__ns__" in v:
            from jsonargparse import Namespace

            return Namespace(**{k: realise(x) for k, x in v["__ns__"].items()})
        if "__odict__" in v:
            import collections

            return collections.OrderedDict((k, realise(x)) for k, x in v["__odict__"])
        return {k: realise(x) for k, x in v.items()}
    if isinstance(v, list):
        return [realise(x) for x in v]
    return v


def _has_container(v):
    from jsonargparse import Namespace

    if isinstance(v, (dict, Namespace)):
        vals = list(v.values()) if isinstance(v, dict) else list(vars(v).values())
        return any(isinstance(x, (dict, list, tuple, set, Namespace)) for x in vals)
    return isinstance(v, (list, tuple)) and len(v) > 0


def _base_cfg(p, spec):
    if "obj" in spec:
        return p.parse_object(realise(spec["obj"]), _skip_validation=spec.get("skip_validation", False))
    return p.parse_args(list(spec["argv"]))


def prepare(p, op):
    """build the arguments the op will receive; returns dict name -> object, or None if preparation failed"""
    from jsonargparse import Namespace

    k = op["kind"]
    if k == "parse_object":
        return {"cfg_obj": realise(op["obj"])}
    if k == "parse_object_ns":
        return {"cfg_obj": Namespace(realise(op["obj"]))}
    if k == "parse_object_plain_ns":
        import argparse

        # what a legacy argparse parser (or Namespace.as_flat()) returns: not a jsonargparse Namespace
        return {"cfg_obj": argparse.Namespace(**{kk: v for kk, v in realise(op["obj"]).items() if kk.isidentifier()})}
    if k in ("inst_dict", "dump_dict"):
        return {"cfg": realise(op["obj"])}  # the (deprecated, still accepted) plain dict
    if k == "parse_object_base":
        return {"cfg_obj": realise(op["obj"]), "cfg_base": Namespace(realise(op["base"]))}
    if k in ("parse_args", "parse_args_nodefaults"):
        return {"args": list(op["argv"])}
    if k == "parse_args_ns":
        return {"args": list(op["argv"]), "namespace": Namespace(realise(op["ns"]))}
    if k == "parse_args_ns_nodefaults":
        return {"args": list(op["argv"]), "namespace": Namespace(**realise(op["ns"]))}
    if k == "parse_string":
        return {"cfg_str": op["text"]}
    if k == "parse_env":
        return {"env": dict(op["env"])}
    if k == "parse_path":
        return {"cfg_path": op["path"]}
    if k == "parse_path_obj":
        from jsonargparse import Path as _P

        o = run_op(lambda: _P(op["path"], "fr", cwd=op["cwd"]))
        return {"cfg_path": o.value} if o.kind == "ret" else None
    if k == "inst_empty":
        return {"cfg": Namespace()}
    if k in ("defaults", "help"):
        return {}
    o = run_op(lambda: _base_cfg(p, op["base"]))
    if o.kind != "ret":
        return None
    cfg = o.value
    for kk, v in realise(op.get("raw", {})).items():
        if kk != "zz":
            cfg[kk] = v
    args = {"cfg": cfg}
    if k == "save_obj":
        from jsonargparse import Path as _P

        o3 = run_op(lambda: _P(op["path"], "fc", cwd=op["cwd"]))
        if o3.kind != "ret":
            return None
        args["path"] = o3.value
    if k == "merge":
        o2 = run_op(lambda: _base_cfg(p, op["base2"]))
        if o2.kind != "ret":
            return None
        args["cfg_to"] = o2.value
    return args


def call(p, op, args):
    k = op["kind"]
    if k in ("parse_object", "parse_object_ns", "parse_object_plain_ns"):
        return p.parse_object(args["cfg_obj"])
    if k == "inst_dict":
        return p.instantiate_classes(args["cfg"])
    if k == "dump_dict":
        return p.dump(args["cfg"])
    if k == "parse_object_base":
        return p.parse_object(args["cfg_obj"], cfg_base=args["cfg_base"])
    if k == "parse_args":
        return p.parse_args(args["args"])
    if k == "parse_args_ns":
        return p.parse_args(args["args"], namespace=args["namespace"])
    if k == "parse_args_nodefaults":
        return p.parse_args(args["args"], defaults=False)
    if k == "parse_args_ns_nodefaults":
        return p.parse_args(args["args"], namespace=args["namespace"], defaults=False)
    if k == "parse_string":
        return p.parse_string(args["cfg_str"])
    if k == "parse_env":
        return p.parse_env(args["env"])
    if k in ("parse_path", "parse_path_obj"):
        return p.parse_path(args["cfg_path"])
    if k == "save_obj":
        return p.save(args["cfg"], args["path"], **op.get("kw", {}))
    if k == "inst_empty":
        return p.instantiate_classes(args["cfg"])
    if k == "validate":
        return p.validate(args["cfg"])
    if k == "dump":
        return p.dump(args["cfg"], **op.get("kw", {}))
    if k == "save":
        return p.save(args["cfg"], op["path"], **op.get("kw", {}))
    if k == "merge":
        return p.merge_config(args["cfg"], args["cfg_to"])
    if k == "strip":
        return p.strip_unknown(args["cfg"])
    if k == "inst":
        return p.instantiate_classes(args["cfg"])
    if k == "defaults":
        return p.get_defaults()
    if k == "help":
        return p.format_help()
    if k == "inst2":
        sim = rt.CUR
        n0 = len(sim.cb_log)
        r1 = p.instantiate_classes(args["cfg"])
        n1 = len(sim.cb_log)
        r2 = p.instantiate_classes(args["cfg"])
        return (r1, r2, n0, n1, len(sim.cb_log))
    raise ValueError(k)


def global_snapshot(p):
    pub = tuple((n, id(getattr(argparse, n))) for n in sorted(dir(argparse)) if not n.startswith("_"))
    # one entry per action that existed when the parser was built (the first parse_args lazily adds
    # --print_shtab: an added action is not a modified default)
    n = STATE.setdefault("nactions", {}).setdefault(id(p), len(p._actions))
    acts = ("tuple", 0, tuple(snap(a.default) for a in p._actions[:n]))
    try:
        cwd = os.getcwd()
    except OSError:
        cwd = "<gone>"
    return {
        "defaults": acts,
        "parser._defaults": ("dict", 0, tuple((repr(k), snap(v)) for k, v in p._defaults.items())),
        "cwd": cwd,
        "environ": tuple(sorted(os.environ.items())),
        "argparse": pub,
        "stdio": (id(sys.stdout), id(sys.stderr)),
    }


def _simobjs(v, out, depth=0):
    from jsonargparse import Namespace

    from ..simtypes import SimObj

    if depth > 20:
        return
    if isinstance(v, SimObj):
        out.append(v)
        for x in vars(v).values():
            _simobjs(x, out, depth + 1)
    elif isinstance(v, Namespace):
        for x in vars(v).values():
            _simobjs(x, out, depth + 1)
    elif isinstance(v, dict):
        for x in v.values():
            _simobjs(x, out, depth + 1)
    elif isinstance(v, (list, tuple, set)):
        for x in v:
            _simobjs(x, out, depth + 1)


def shape(path):
    return path.replace("Namespace", "NS")


def judge(ctx, op, args, before, gbefore, o, p, fault):
    sim = ctx.sim
    kind = op["kind"]
    fk = fault or "none"
    with rt.suspended():
        for name, b in before.items():
            d = diff(b, snap(args[name]))
            if d:
                pth, what = d
                if "tuple" in pth:
                    w = "arg-container-inside-tuple"
                elif what in ("key-added", "key-removed", "key-order", "length", "members"):
                    w = "arg-" + what
                elif what == "identity":
                    w = "arg-container-replaced"
                else:
                    w = "arg-retyped-in-place"
                ctx.violation("argument-modified", {"op": kind, "what": w, "arg": name, "path": shape(pth), "fault": fk}, "%s changed its argument %s at %s (%s); outcome %s %s" % (kind, name, pth, what, o.brief(), o.text[:150]))
        g = global_snapshot(p)
        for key in ("defaults", "parser._defaults"):
            if g[key] != gbefore[key]:
                d = diff(gbefore[key], g[key]) or ("?", "?")
                ctx.violation("defaults-modified", {"op": kind, "what": "defaults", "path": shape(d[0]), "fault": fk}, "%s changed a declared default (%s) at %s: %s" % (kind, key, d[0], d[1]))
                break
        if g["cwd"] != gbefore["cwd"]:
            ctx.violation("cwd-modified", {"op": kind, "what": "cwd", "fault": fk}, "%s left the process in %s (was %s); outcome %s" % (kind, g["cwd"], gbefore["cwd"], o.brief()))
            try:
                os.chdir(gbefore["cwd"])
            except OSError:
                pass
        if g["environ"] != gbefore["environ"]:
            ctx.violation("environ-modified", {"op": kind, "what": "environ", "fault": fk}, "%s changed os.environ: %s" % (kind, sorted(set(g["environ"]) ^ set(gbefore["environ"]))[:4]))
        if g["argparse"] != gbefore["argparse"]:
            ch = [a[0] for a, b in zip(g["argparse"], gbefore["argparse"]) if a != b]
            ctx.violation("argparse-modified", {"op": kind, "what": "argparse", "attr": ch[0] if ch else "?", "fault": fk}, "%s left the argparse module modified: %s; outcome %s" % (kind, ch, o.brief()))
            argparse.Namespace = ctx.ns0
        if g["stdio"] != gbefore["stdio"]:
            ctx.violation("stdio-modified", {"op": kind, "what": "stdio", "fault": fk}, "%s replaced sys.stdout/stderr" % kind)
        if kind == "inst2" and o.kind == "ret":
            r1, r2, n0, n1, n2 = o.value
            a, b = [], []
            _simobjs(r1, a)
            _simobjs(r2, b)
            sim.probe("instantiate-twice-objects", len(a))
            # only objects that instantiate_classes built itself count (a signature default such as a
            # lazy_instance object that the config never mentions is shared by Python semantics)
            built = set(c[2] for c in sim.cb_log[n0:n2])
            shared = set(map(id, a)) & set(map(id, b))
            if op.get("raw"):
                shared &= built
            # (a config that is entirely the product of a parse has had its signature defaults expanded into specs -
            # "including specs derived from signature defaults" - so nothing at all may be shared there)
            if shared:
                cls = sorted(type(x).__name__ for x in a if id(x) in shared)
                ctx.violation("shared-instance", {"op": kind, "what": "shared-instance", "cls": cls[0], "fault": fk}, "instantiating twice from one configuration shares %d object(s): %s" % (len(shared), cls))
            l1 = sorted(json.dumps([c[0], c[1]], sort_keys=True) for c in sim.cb_log[n0:n1])
            l2 = sorted(json.dumps([c[0], c[1]], sort_keys=True) for c in sim.cb_log[n1:n2])
            if l1 != l2:
                ctx.violation("shared-instance", {"op": kind, "what": "constructor-log-differs", "fault": fk}, "constructor calls of the two instantiations differ: %s vs %s" % (l1[:6], l2[:6]))


def run_one(ctx, p, op, args, fault_plan=None):
    """snapshot, execute, judge.  Used by the main line and by sweep sub-forks."""
    sim = ctx.sim
    before = {k: snap(v) for k, v in args.items()}
    gbefore = global_snapshot(p)
    if fault_plan is not None:
        sim.faults = [dict(f, _n=0, _done=False) for f in fault_plan]
    nf = len(sim.fired)
    ncb = len(sim.cb_log)
    o = run_op(lambda: call(p, op, args))
    fired = [f[3] for f in sim.fired[nf:]]
    if fired:
        sim.probe("fault-fired")
        if len(sim.cb_log) > ncb and any(f[1].startswith("cb:") for f in sim.fired[nf:]):
            sim.probe("ctor-aborted")
    judge(ctx, op, args, before, gbefore, o, p, fired[0] if fired else None)
    return o


def _make_reenter_hook(ctx, p):
    """what a re-entering user callback does: instantiate (twice) and dump a config of its own, on the same parser,
    while the outer call is in progress; its argument must stay untouched and the two results must not share objects"""
    from jsonargparse import Namespace

    def hook(what):
        sim = ctx.sim
        o0 = run_op(lambda: p.parse_args([], _skip_validation=True))
        if o0.kind != "ret":
            return
        cfg2 = o0.value
        before = snap(cfg2)
        n0 = len(sim.cb_log)
        o1 = run_op(lambda: p.instantiate_classes(cfg2))
        n1 = len(sim.cb_log)
        o2 = run_op(lambda: p.instantiate_classes(cfg2))
        n2 = len(sim.cb_log)
        sim.probe("reentered")
        with rt.suspended():
            d = diff(before, snap(cfg2))
            if d:
                ctx.violation("argument-modified", {"op": "inst(reentrant)", "what": "arg-" + d[1].split(" ")[0], "arg": "cfg", "path": shape(d[0]), "fault": "reenter"}, "instantiate_classes called from inside a user callback changed its argument at %s (%s)" % d)
            if o1.kind == "ret" and o2.kind == "ret":
                a, b = [], []
                _simobjs(o1.value, a)
                _simobjs(o2.value, b)
                built = set(c[2] for c in sim.cb_log[n0:n2])
                shared = set(map(id, a)) & set(map(id, b)) & built
                if shared:
                    ctx.violation("shared-instance", {"op": "inst(reentrant)", "what": "shared-instance", "cls": sorted(type(x).__name__ for x in a if id(x) in shared)[0], "fault": "reenter"}, "two instantiations made from inside a user callback share %d object(s)" % len(shared))
            STATE.setdefault("keepalive", []).append((o1.value, o2.value))  # ids stay unique for the outer oracle
            del sim.cb_log[n0:]  # the nested call's constructions are not part of the outer operation's log

    return hook


def _sweep_sub(sc, root, i, fault_plan):
    ctx = harness.Ctx(rt.CUR, sc, sc.get("tier", "quick"), root)
    ctx.ns0 = STATE["ns0"]
    rt.CUR.reenter_hook = _make_reenter_hook(ctx, STATE["p"])
    rt.CUR.begin_op(i, sc["ops"][i]["kind"])
    o = run_one(ctx, STATE["p"], sc["ops"][i], STATE["args"], fault_plan)
    return ctx.sub_result({"kinds": list(rt.CUR.op_kinds), "brief": o.brief()})


STATE = {}
FAILABLE = ("open", "io.read", "io.write", "io.close", "os.stat", "os.getcwd", "os.chdir")


def execute(sc, ctx):
    sim, root = ctx.sim, ctx.root
    ctx.ns0 = argparse.Namespace
    p = zoo.build(sc["parser"])
    side = root + ".side"
    have_side = False
    sweep = sc.get("sweep")
    cwd = os.getcwd()
    try:
        for i, op in enumerate(sc["ops"]):
            kind = op["kind"]
            sim.begin_op(i, kind + ":prepare")
            args = prepare(p, op)
            if args is None:
                ctx.record(kind, "prep-failed")
                continue
            if any(_has_container(v) for v in args.values()):
                sim.probe("arg-with-nested-container")
                ctx.nontrivial = True
            if sweep and sweep["op"] == i and not getattr(ctx, "golden", False):
                STATE.update(p=p, args=args, ns0=ctx.ns0)
                if not have_side:
                    world.copy_tree(root, side)
                    have_side = True
                st, gold = fork_call(_sweep_sub, sc, root, i, [])
                if st == "signal":
                    ctx.violation("hang", {"op": kind, "fault": "none"}, "%s died with signal %s" % (kind, gold))
                elif st != "ok":
                    raise RuntimeError("golden sub-run failed: %r" % (gold,))
                else:
                    if kind in ("save", "save_obj"):
                        world.restore(root, side)
                        os.chdir(cwd)
                    kinds = gold["kinds"]
                    sites = list(range(len(kinds)))
                    mx = sweep["max_sites"]
                    if len(sites) > mx:
                        step = len(sites) / float(mx)
                        sites = sorted(set(int(x * step) for x in range(mx)))
                    swept = set()
                    for j in sites:
                        sk = kinds[j]
                        fts = []
                        if sk.startswith("cb:"):
                            fts.append({"type": "raise", "cls": sweep["cb_cls"]})
                            if sk.endswith(".__init__") and len([x for x in swept if x.startswith("reenter@")]) < 2:
                                fts.append({"type": "reenter", "what": "inst"})
                        else:
                            if sk in FAILABLE:
                                fts.append({"type": "oserror", "errno": sweep["errno"]})
                            if sk.startswith(("os.", "open")) and sk != "os.getcwd":
                                fts.append({"type": "adversary", "action": sweep["adversary"]})
                        for ft in fts:
                            sim.probe("sweep-site")
                            st, res = fork_call(_sweep_sub, sc, root, i, [{"op": i, "site": "*", "k": j + 1, "fault": ft}])
                            if ft["type"] == "adversary" or kind in ("save", "save_obj"):
                                world.restore(root, side)
                                os.chdir(cwd)
                            if st == "signal":
                                ctx.violation("hang", {"op": kind, "fault": ft["type"]}, "%s with fault at call %d (%s) died with signal %s" % (kind, j + 1, sk, res))
                                continue
                            if st != "ok":
                                raise RuntimeError("sweep sub-run failed: %r" % (res,))
                            ctx.absorb(res)
                            swept.add("%s@%s=%s" % (ft["type"], sk, res["brief"]))
                    ctx.notes["sweep"] = sorted(swept)
            sim.begin_op(i, kind)
            o = run_one(ctx, p, op, args)
            if o.kind != "ret":
                sim.probe("op-failed")
            if "os.chdir" in sim.op_kinds:
                sim.probe("op-moved-cwd")
                ctx.nontrivial = True
            ctx.record(kind, o.brief())
    finally:
        if have_side:
            world._force_rmtree(side)
