"""Simulation runtime: the one object that owns every seam call, the fault plan and the event log.

Execution never draws randomness and never reads a clock: everything here is a function of the
scenario (data) and the code under test.  The only PRNG used at execution time is the listing
permutation of glob results, which is seeded from a number stored *in the scenario*.
"""
import builtins
import errno as _errno
import glob as _real_glob
import hashlib
import json
import os as _os
import random
import re
import shutil
import stat as _stat
import sys

CUR = None  # the active Sim of this process (one per forked child)


class WouldBlockForever(BaseException):
    """A FIFO whose writer wrote once and closed was opened a second time: the real open() never returns.
    The simulator reports it instead of blocking; oracles treat it as non-termination."""


class SimAbort(BaseException):
    """Models Ctrl-C / sys.exit / os.abort inside user code: not an Exception."""


ERRNOS = {n: getattr(_errno, n) for n in ("EACCES", "ENOENT", "EIO", "EMFILE", "EISDIR", "ENOSPC", "ENOTDIR")}
RAISE_CLASSES = {
    "ValueError": ValueError,
    "TypeError": TypeError,
    "RuntimeError": RuntimeError,
    "KeyError": KeyError,
    "OSError": OSError,
    "SimAbort": SimAbort,
}

_ADDR = re.compile(r"0x[0-9a-fA-F]+")


class Sim:
    def __init__(self, root, faults=(), listing_seed=0, record_events=True):
        self.root = root
        self.real_root = _os.path.realpath(root)
        self.faults = [dict(f, _n=0, _done=False) for f in faults]
        self.listing_seed = listing_seed
        self.glob_calls = 0
        self.record_events = record_events
        self.events = []
        self.op = -1
        self.op_kinds = []  # seam kinds of the current op, in order (golden run uses it)
        self.ops_kinds = {}  # op -> list of kinds
        self.fired = []  # (op, kind, site, fault type)
        self.injected = []  # exception objects raised by the injector
        self.chdir_stack = []
        self.probes = {}
        self.seam_calls = 0
        self.cb_log = []  # (name, canonical kwargs) of user-code callbacks
        self.hasher = hashlib.sha256()
        self.suspended = 0
        self.fifo_content = {}  # world-relative path -> what the (one-shot) writer wrote
        self.fifo_opens = {}
        self.locale_encoding = None  # world["locale"]: the encoding open() uses when the caller names none (None = the real one)
        self.fifo_one_shot = False  # opt-in per scenario (world["fifo_one_shot"]); otherwise a FIFO is simply at EOF

    # ---- canonicalisation -------------------------------------------------------------------
    def canon(self, x):
        if not isinstance(x, str):
            try:
                x = _os.fspath(x)
            except TypeError:
                x = repr(x)
            if isinstance(x, bytes):
                x = repr(x)
        x = x.replace(self.real_root, "$W").replace(self.root, "$W")
        return _ADDR.sub("0xX", x)

    # ---- log --------------------------------------------------------------------------------
    def emit(self, *ev):
        ev = [self.op] + [e if isinstance(e, (int, float, bool, type(None), list, dict)) else self.canon(e) for e in ev]
        self.hasher.update(json.dumps(ev, sort_keys=True, default=repr).encode())
        if self.record_events:
            self.events.append(ev)

    def probe(self, name, n=1):
        self.probes[name] = self.probes.get(name, 0) + n

    def digest(self):
        return self.hasher.hexdigest()

    # ---- ops --------------------------------------------------------------------------------
    def begin_op(self, i, kind):
        self.fifo_opens = {}  # every operation meets freshly written FIFOs
        self.op = i
        self.op_kinds = []
        self.ops_kinds[i] = self.op_kinds
        self.chdir_stack = []
        self.emit("op", kind)

    def end_op(self):
        self.op = -1

    # ---- the seam ---------------------------------------------------------------------------
    def point(self, kind, arg=None, restoring=False, path=None):
        """Every call that leaves jsonargparse (OS, user code) passes here before it is performed."""
        if self.suspended:
            return None
        self.seam_calls += 1
        self.emit("call", kind, arg if arg is None else self.canon(arg))
        if restoring:
            return None
        self.op_kinds.append(kind)
        for f in self.faults:
            if f["_done"] or f.get("op", self.op) != self.op:
                continue
            site = f.get("site", "*")
            if not (site == "*" or kind == site or kind.startswith(site) or (site == "OS" and not kind.startswith("cb:"))):
                continue
            f["_n"] += 1
            if f["_n"] != f["k"]:
                continue
            f["_done"] = True
            return self._fire(f, kind, path if path is not None else arg)
        return None

    def _fire(self, f, kind, path):
        ft = f["fault"]
        t = ft["type"]
        if t == "torn" and kind != "io.write":
            t = "oserror"  # a torn write only makes sense on write(); elsewhere it is a plain ENOSPC
            ft = {"type": "oserror", "errno": "ENOSPC"}
        if t == "adversary" and not (isinstance(path, str) and kind.startswith(("os.", "open"))):
            return None
        self.fired.append((self.op, kind, f.get("site", "*"), t, self.canon(path) if path is not None else None))
        self.emit("fault", t, kind, ft.get("errno") or ft.get("cls") or ft.get("action"))
        if t == "oserror":
            en = ERRNOS[ft.get("errno", "EIO")]
            ex = OSError(en, "injected " + _os.strerror(en))
            self.injected.append(ex)
            raise ex
        if t == "raise":
            ex = RAISE_CLASSES[ft["cls"]]("injected " + ft["cls"])
            self.injected.append(ex)
            raise ex
        if t == "torn":
            return "torn"
        if t == "adversary":
            self._adversary(ft["action"], path)
            return None
        if t == "reenter":
            # the user callback re-enters the library (a constructor that parses / instantiates something itself)
            hook = getattr(self, "reenter_hook", None)
            if hook is not None:
                self.suspended += 1  # the nested call's own seam calls are not fault sites of the outer plan
                try:
                    hook(ft.get("what", "inst"))
                finally:
                    self.suspended -= 1
            return None
        raise AssertionError("unknown fault " + t)

    def _adversary(self, action, path):
        """Another process touches the path of the call that is about to happen (check-then-use)."""
        p = path if _os.path.isabs(path) else _os.path.join(_os.getcwd(), path)
        rp = _os.path.realpath(p)
        if not rp.startswith(self.real_root + "/"):
            return
        # never pull the ground from under the process itself: the directories it is in (or has to return
        # to) are not touched, otherwise "cwd restored" would be unanswerable
        try:
            held = [_os.path.realpath(_os.getcwd())] + list(self.chdir_stack)
        except OSError:
            held = list(self.chdir_stack)
        if any(h == rp or h.startswith(rp + "/") for h in held):
            return
        try:
            if action == "delete":
                if _os.path.isdir(p) and not _os.path.islink(p):
                    shutil.rmtree(p)
                else:
                    _os.unlink(p)
            elif action == "chmod0":
                _os.chmod(p, 0)
            elif action == "mkdir":
                if _os.path.lexists(p) and not _os.path.isdir(p):
                    _os.unlink(p)
                    _os.mkdir(p)
            elif action == "truncate":
                if _os.path.isfile(p):
                    builtins.open(p, "w").close()
        except OSError:
            pass


def point(kind, arg=None):
    """Entry used by user-code callbacks in simtypes."""
    if CUR is not None:
        return CUR.point(kind, arg)
    return None


class suspended:
    """Harness-side sections (oracles) must not count as seam calls."""

    def __enter__(self):
        if CUR is not None:
            CUR.suspended += 1

    def __exit__(self, *a):
        if CUR is not None:
            CUR.suspended -= 1


# ================================================================================================
# permission model: we run as root, so access bits are evaluated for a simulated unprivileged owner


def sim_access(path, mode, **kw):
    try:
        st = _os.stat(path)
    except (OSError, ValueError):
        if isinstance(path, str) and "\x00" in path:
            raise ValueError("embedded null byte")
        return False
    if mode == _os.F_OK:
        return True
    m = st.st_mode
    ok = True
    if mode & _os.R_OK:
        ok = ok and bool(m & 0o400)
    if mode & _os.W_OK:
        ok = ok and bool(m & 0o200)
    if mode & _os.X_OK:
        ok = ok and bool(m & 0o100)
    return ok


class _PathProxy:
    _seam = ("isfile", "isdir", "exists", "realpath", "islink", "lexists")

    def __getattr__(self, n):
        f = getattr(_os.path, n)
        if n in self._seam:

            def w(*a, **k):
                if CUR is not None:
                    CUR.point("os.path." + n, a[0] if a else None)
                return f(*a, **k)

            return w
        return f


class OsProxy:
    """Stands in for the `os` module global of jsonargparse modules."""

    def __init__(self):
        self.path = _PathProxy()

    def __getattr__(self, n):
        return getattr(_os, n)

    def access(self, path, mode, **kw):
        if CUR is not None:
            CUR.point("os.access", path)
        return sim_access(path, mode, **kw)

    def stat(self, path, *a, **k):
        if CUR is not None:
            CUR.point("os.stat", path)
        return _os.stat(path, *a, **k)

    def getcwd(self):
        if CUR is not None:
            CUR.point("os.getcwd")
        return _os.getcwd()

    def chdir(self, p):
        s = CUR
        if s is None:
            return _os.chdir(p)
        st = s.chdir_stack
        try:
            rp = _os.path.realpath(p)
        except (OSError, ValueError):
            rp = None
        restoring = bool(st) and rp == st[-1]
        s.point("os.chdir", p, restoring=restoring)
        if restoring:
            st.pop()
            if sys.exc_info()[0] is not None:
                s.probe("chdir-restore-with-exception-in-flight")
        else:
            st.append(_os.path.realpath(_os.getcwd()))
        return _os.chdir(p)

    def getenv(self, k, default=None):
        return _os.environ.get(k, default)


class GlobProxy:
    """The simulator, not the kernel, decides directory listing order."""

    def __getattr__(self, n):
        return getattr(_real_glob, n)

    def glob(self, pattern, **k):
        res = _real_glob.glob(pattern, **k)
        s = CUR
        if s is not None:
            s.point("glob", pattern)
            s.glob_calls += 1
            if len(res) > 1:
                random.Random(s.listing_seed * 1000003 + s.glob_calls).shuffle(res)
                s.probe("glob-multi")
                if res != sorted(res):
                    s.probe("glob-unsorted-listing")
            s.emit("glob-result", [s.canon(x) for x in res])
        return res


class SimFile:
    """File object returned by sim_open; read/write/close are seam calls too."""

    def __init__(self, f, path):
        self._f = f
        self._p = path

    def __getattr__(self, n):
        return getattr(self._f, n)

    def __enter__(self):
        return self

    def __exit__(self, *a):
        self.close()
        return False

    def __iter__(self):
        return iter(self._f)

    def read(self, *a):
        if CUR is not None:
            CUR.point("io.read", self._p)
        return self._f.read(*a)

    def write(self, data):
        r = CUR.point("io.write", self._p) if CUR is not None else None
        if r == "torn":
            self._f.write(data[: len(data) // 2])
            self._f.flush()
            ex = OSError(_errno.ENOSPC, "injected torn write")
            CUR.injected.append(ex)
            raise ex
        return self._f.write(data)

    def close(self):
        if self._f.closed:
            return None
        try:
            if CUR is not None:
                CUR.point("io.close", self._p)
        finally:
            self._f.close()
        return None


def sim_open(file, mode="r", *a, **k):
    s = CUR
    if s is None:
        return builtins.open(file, mode, *a, **k)
    s.point("open", file, path=file if isinstance(file, str) else None)
    # simulated unprivileged owner: root would be allowed everything
    if isinstance(file, (str, _os.PathLike)):
        p = _os.fspath(file)
        try:
            st = _os.stat(p)
        except (OSError, ValueError):
            st = None
        if st is not None and not _stat.S_ISDIR(st.st_mode):
            if ("r" in mode or "+" in mode) and not st.st_mode & 0o400:
                raise PermissionError(_errno.EACCES, "Permission denied", p)
            if any(c in mode for c in "wa+x") and not st.st_mode & 0o200:
                raise PermissionError(_errno.EACCES, "Permission denied", p)
        elif st is None and any(c in mode for c in "wax"):
            try:
                pst = _os.stat(_os.path.dirname(_os.path.abspath(p)))
                if not pst.st_mode & 0o200:
                    raise PermissionError(_errno.EACCES, "Permission denied", p)
            except FileNotFoundError:
                pass
        if st is not None and _stat.S_ISFIFO(st.st_mode):
            # one-shot FIFO: a writer wrote its content once and closed.  The first open reads it (possibly
            # nothing: EOF); a second open of the same FIFO would block for ever in reality
            import io

            rp = _os.path.realpath(p)
            n = s.fifo_opens.get(rp, 0) + 1
            s.fifo_opens[rp] = n
            s.probe("open-fifo")
            if n > 1 and s.fifo_one_shot:
                s.probe("fifo-opened-again")
                s.emit("fifo-would-block", s.canon(rp))
                raise WouldBlockForever("second open() of the one-shot FIFO %s would block for ever" % s.canon(rp))
            rel = _os.path.relpath(rp, s.real_root)
            return SimFile(io.StringIO(s.fifo_content.get(rel, "")), p)
    if s.locale_encoding and "b" not in mode and "encoding" not in k and len(a) < 2:
        k["encoding"] = s.locale_encoding  # text mode without an explicit encoding: the locale's (simulated) encoding
        s.probe("open-under-simulated-locale")
    f = builtins.open(file, mode, *a, **k)
    return SimFile(f, file if isinstance(file, str) else repr(file))


_INSTALLED = False


class LocaleProxy:
    """what jsonargparse sees of the locale module: the preferred encoding is the simulated one"""

    def __getattr__(self, name):
        import locale as _locale

        return getattr(_locale, name)

    def getpreferredencoding(self, do_setlocale=True):
        import locale as _locale

        s = CUR
        if s is not None and s.locale_encoding:
            return s.locale_encoding
        return _locale.getpreferredencoding(do_setlocale)

    def getencoding(self):
        return self.getpreferredencoding(False)


def install_seams():
    """Rebind the module globals of jsonargparse that reach the OS.  No change to /repo is needed."""
    global _INSTALLED
    import jsonargparse._core as C
    import jsonargparse._util as U

    px = OsProxy()
    U.os = px
    C.os = px
    U.open = sim_open
    C.open = sim_open
    C.glob = GlobProxy()
    C.locale = LocaleProxy()  # (a module global of _core since the repair that checks encodability before opening)
    _INSTALLED = True
