import io, contextlib, os
os.environ['COLUMNS']='100'
from typing import Callable, Optional
from jsonargparse import ArgumentParser
class Base:
    def __init__(self, first: int = 1, second: str = 'x'): pass
class Sub(Base):
    def __init__(self, first: int = 1, second: str = 'x', third: float = 0.5): pass
def helptext(p, argv):
    out=io.StringIO()
    try:
        with contextlib.redirect_stdout(out): p.parse_args(argv)
    except SystemExit: pass
    return out.getvalue()
def mkB():
    p=ArgumentParser(exit_on_error=False, prog='b'); p.add_argument('--obj', type=Optional[Base]); return p
before = helptext(mkB(), ['--obj.help=Sub'])
pa=ArgumentParser(exit_on_error=False, prog='a'); pa.add_argument('--fn', type=Callable[[int], Base])
helptext(pa, ['--fn.help=Sub'])
after = helptext(mkB(), ['--obj.help=Sub'])
print('same' if before==after else 'DIFFERENT')
import difflib
print('\n'.join(difflib.unified_diff(before.splitlines(), after.splitlines(), lineterm='', n=0)))
