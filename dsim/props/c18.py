"""C18 - save never destroys data: all-or-nothing on failure, no silent overwrite.

Level fault_enumeration: for every sampled scenario the save is first executed fault-free (golden), then
re-executed from an identical forked state and an identical (restored) world with a fault at EVERY seam
call of the save that can really fail (open / read / write / close / stat / chdir, every (de)serialiser
and constructor callback)."""
import copy
import json
import os

from .. import harness, rt, world, zoo
from ..harness import canon_value, fork_call, run_op

LEVEL = "fault_enumeration"
RUNS = {"quick": 2500, "thorough": 40000}
WALL = {"quick": 150, "thorough": 1500}
RULE = (
    "one run = one seeded (parser, loaded config incl. sub-files, optional invalidation, pre-existing target/sub-file state, "
    "save parameters) scenario; the save is executed fault-free and then once per fault site (every seam call of the save "
    "that can fail x 1-2 fault classes), each from an identical forked state and restored world; distinct = distinct "
    "(parameters, invalidation kinds, pre-state kinds, outcome kinds, fired-fault set); non-trivial = the save touched the "
    "file system or was refused/failed while something existed at a path it wanted to write, or a fault fired inside it"
)
ASSUMPTIONS = [
    "strict all-or-nothing is required only when the cause of the failure is the configuration (validation, serialisation, declared ValueError/TypeError of a (de)serialiser)",
    "under an injected OS error / torn write / undeclared exception only 'no silent overwrite' and 'nothing outside the target and declared sub-file names touched' are required",
    "path-typed values are spelled absolute (jsonargparse keeps relative spellings by design, so a config saved into another directory is not expected to re-parse)",
    "fsspec / URL targets are off (default)",
]
PROBES = ["save-under-narrow-locale", "destination-names-collide", "save-ok-in-place-after-edits", "save-refused-overwrite", "save-failed-config-cause", "save-ok-multifile-with-subfiles", "save-ok-reparsed", "fault-in-save", "torn-write", "sweep-site"]
ANCHOR_FILES = ("_core", "_util")
NO_SHRINK = ("save", "save/*", "parser/opts", "parser/opts/*", "world/dirs")
SHRINK_DICTS = ("world/files", "world/env", "world/symlinks", "world/dirmodes", "save/pre")

INNER = {"opts": {"exit_on_error": False}, "args": [{"k": "arg", "name": "q", "type": "int", "default": 0}, {"k": "arg", "name": "v", "type": "list_float", "default": [0.5]}, {"k": "arg", "name": "ip", "type": "opt_path_fr", "default": None}, {"k": "arg", "name": "pr", "type": "opt_probe", "default": None}]}

DEEP = {"opts": {"exit_on_error": False}, "args": [{"k": "arg", "name": "r", "type": "int", "default": 0}, {"k": "arg", "name": "w", "type": "list_float", "default": [1.5]}]}
INNER_DEEP = {"opts": INNER["opts"], "args": INNER["args"] + [{"k": "inner", "name": "deep", "spec": DEEP}]}
FEATS = ["inner1", "inner2", "dct", "obj", "p", "pr", "x", "req", "dg", "jn", "js", "deep", "lk"]


def parser_spec(feats):
    args = [{"k": "cfg"}, {"k": "arg", "name": "a", "type": "int", "default": 1}, {"k": "arg", "name": "s", "type": "str", "default": "s0"}]
    if "req" in feats:
        args.append({"k": "arg", "name": "req", "type": "int", "required": True})
    if "x" in feats:
        args.append({"k": "arg", "name": "x", "type": "any", "default": None})
    if "pr" in feats:
        args.append({"k": "arg", "name": "pr", "type": "opt_probe", "default": None})
    if "p" in feats:
        args.append({"k": "arg", "name": "p", "type": "opt_path_fr", "default": None})
    for n in ("inner1", "inner2"):
        if n in feats:
            args.append({"k": "inner", "name": n, "spec": INNER_DEEP if (n == "inner1" and "deep" in feats) else INNER})
    if "dct" in feats:
        args.append({"k": "arg", "name": "dct", "type": "dict_str_int", "default": {}, "enable_path": True})
    if "obj" in feats:
        args.append({"k": "arg", "name": "obj", "type": "opt_base", "default": None, "enable_path": True})
    if "dg" in feats:
        args.append({"k": "class", "cls": "D", "name": "dg"})
    if "dg" in feats and "lk" in feats:
        args.append({"k": "link", "src": "a", "dst": "dg.u"})
    if "jn" in feats:
        args.append({"k": "jsonnet", "name": "jn"})
    if "js" in feats:
        args.append({"k": "jsonschema", "name": "js", "schema": {"type": "object", "properties": {"k": {"type": "integer"}}, "additionalProperties": False}})
    return {"opts": {"exit_on_error": False}, "args": args, "feats": sorted(feats)}


def generate(rng, tier):
    feats = set(f for f in FEATS if rng.random() < 0.5)
    if not feats & {"inner1", "inner2", "dct", "obj"} and rng.random() < 0.6:
        feats.add(rng.choice(["inner1", "inner2", "dct", "obj"]))
    spec = parser_spec(feats)
    files = {"data/pa.txt": "payload\n"}
    collide = False
    main = {"a": rng.randint(2, 99), "s": "v%d" % rng.randint(1, 99)}
    if "req" in feats:
        main["req"] = rng.randint(1, 9)
    if "pr" in feats and rng.random() < 0.8:
        main["pr"] = "p:" + rng.choice(["abc", "x", "k9"])
    if "p" in feats and rng.random() < 0.8:
        main["p"] = "$W/data/pa.txt"
    if "x" in feats and rng.random() < 0.5:
        main["x"] = rng.choice([{"k": [1, 2]}, "txt", 7, [1, {"z": 2}]])
    if "dg" in feats and "lk" not in feats and rng.random() < 0.5:
        main["dg"] = {"u": rng.randint(2, 9)}
    for n, ext in (("inner1", "yaml"), ("inner2", "json")):
        if n in feats:
            sub = {"q": rng.randint(1, 99), "v": [rng.randint(1, 9) + 0.5 for _ in range(rng.randint(0, 3))]}
            if rng.random() < 0.25:
                sub["ip"] = "$W/data/pa.txt"
            if rng.random() < 0.3:
                sub["pr"] = "p:sub"
            if n == "inner1" and "deep" in feats:
                dp = {"r": rng.randint(1, 9), "w": [rng.randint(1, 9) + 0.5]}
                if rng.random() < 0.7:
                    files["src/B/C/deep.yaml"] = json.dumps(dp)
                    sub["deep"] = "C/deep.yaml"
                else:
                    sub["deep"] = dp
            if rng.random() < 0.8:
                if n == "inner2" and isinstance(main.get("inner1"), str) and rng.random() < 0.15:
                    # two sub-configs with the SAME basename from different directories: a multi-file save
                    # writes both under one name in the target directory
                    files["src/B2/inner1.yaml"] = json.dumps(sub)
                    main[n] = "B2/inner1.yaml"
                    collide = True
                else:
                    files["src/B/%s.%s" % (n, ext)] = json.dumps(sub)
                    main[n] = "B/%s.%s" % (n, ext)
            else:
                main[n] = sub
    if "dct" in feats:
        d = {rng.choice("pqr"): rng.randint(1, 9) for _ in range(rng.randint(1, 2))}
        if rng.random() < 0.7:
            files["src/B/d.json"] = json.dumps(d)
            main["dct"] = "B/d.json"
        else:
            main["dct"] = d
    if "obj" in feats:
        o = {"class_path": "dsim.simtypes.Sub1", "init_args": {"n": rng.randint(1, 9) + 0.0, "opts": {"a": 2.0}}}
        if rng.random() < 0.7:
            files["src/B/obj.yaml"] = json.dumps(o)
            main["obj"] = "B/obj.yaml"
        else:
            main["obj"] = o
    if "jn" in feats:
        # jsonnet source kept verbatim on save (__orig__) when it was loaded from a file
        if rng.random() < 0.75:
            files["src/B/model.jsonnet"] = "{ layers: %d, width: 16 * 2 }\n" % rng.randint(1, 9)
            main["jn"] = "B/model.jsonnet"
        else:
            main["jn"] = {"layers": rng.randint(1, 9)}
    if "js" in feats:
        if rng.random() < 0.7:
            files["src/B/schema_val.json"] = json.dumps({"k": rng.randint(1, 9)})
            main["js"] = "B/schema_val.json"
        else:
            main["js"] = {"k": rng.randint(1, 9)}
    files["src/main.yaml"] = json.dumps(main)
    # invalidation of the loaded config
    mut = []
    if rng.random() < 0.45:
        choices = [{"key": "a", "value": "bad"}, {"key": "zz", "value": 1}]
        if "req" in feats:
            choices.append({"key": "req", "value": None})
        if "x" in feats:
            choices += [{"key": "x", "unrep": True}, {"key": "x", "unrep": True}]
        if "pr" in feats:
            choices.append({"key": "pr", "value": 3})
        for n in ("inner1", "inner2"):
            if n in feats:
                if n == "inner1" and "deep" in feats:
                    choices.append({"key": "inner1.deep.r", "value": "bad"})
                choices.append({"key": n + ".q", "value": "bad"})
                choices.append({"key": n + ".zz", "value": 1})
        if "dct" in feats:
            choices.append({"key": "dct", "value": {"p": "bad"}})
        if "obj" in feats:
            choices.append({"key": "obj.init_args.n", "value": "bad"})
        if "dg" in feats and "lk" not in feats:
            choices.append({"key": "dg.u", "value": "bad"})
        if "js" in feats:
            choices.append({"key": "js", "value": {"k": "bad"}})
        mut.append(rng.choice(choices))
    # state of the storage before the save
    target_name = rng.choice(["saved.yaml", "saved.yaml", "saved.json", "cfg"])
    subnames = [os.path.basename(v) for v in main.values() if isinstance(v, str) and v.startswith(("B/", "B2/"))]
    if subnames and rng.random() < 0.08:
        target_name = rng.choice(subnames)  # the main file is saved under the name one of its sub-files will get
        collide = True
    pre = {}
    names = list(dict.fromkeys([target_name] + subnames + ["pa.txt"] + (["deep.yaml"] if "src/B/C/deep.yaml" in files else [])))
    for n in names:
        c = rng.random()
        if n == target_name:
            kind = "absent" if c < 0.35 else "file" if c < 0.75 else "readonly" if c < 0.82 else "dir" if c < 0.88 else "symlink" if c < 0.95 else "dangling"
        else:
            kind = "absent" if c < 0.55 else "file" if c < 0.85 else "readonly" if c < 0.9 else "dir" if c < 0.95 else "symlink"
        if kind == "file" and rng.random() < 0.2:
            kind = "empty"  # an existing zero-length file is an existing file
        pre[n] = kind
    dirs = ["home", "run", "out", "src/B/C", "src/B2", "data"]
    symlinks = {}
    for n, kind in pre.items():
        if kind == "file":
            files["out/" + n] = "precious %s %d\n" % (n, rng.randint(0, 999))
        elif kind == "empty":
            files["out/" + n] = ""
        elif kind == "readonly":
            files["out/" + n] = {"text": "readonly %s\n" % n, "mode": 0o444}
        elif kind == "dir":
            dirs.append("out/" + n)
        elif kind == "symlink":
            files["data/linked-" + n] = "linked precious %s\n" % n
            symlinks["out/" + n] = "../data/linked-" + n
        elif kind == "dangling":
            symlinks["out/" + n] = "../data/nothing-" + n
    files["out/bystander.txt"] = "bystander\n"
    # unrelated files whose names are derived from the names the save writes (what a temp-file / backup scheme
    # would pick): they must never be touched
    for n in rng.sample(names, min(len(names), rng.randint(0, 2))):
        dn = rng.choice([n + ".tmp", n + ".bak", n + "~", "." + n, n + ".new", n + ".swp", "." + n + ".tmp", n + ".lock", n + ".orig", n + ".part"])
        files.setdefault("out/" + dn, "decoy %s\n" % dn)
    w = {"dirs": dirs, "files": files, "symlinks": symlinks, "cwd": rng.choice(["run", "run", "out", "src"]), "env": {}}
    if rng.random() < 0.1:
        # a locale whose encoding cannot represent every string (cp1252 on Windows, ASCII in a bare container): a
        # value outside it makes the configuration unserialisable INTO THE FILE - which shows only at write time
        w["locale"] = rng.choice(["ascii", "cp1252", "latin-1"])
        nonascii = True
    else:
        nonascii = rng.random() < 0.05
    if rng.random() < 0.06:
        w["dirmodes"] = {"out": 0o555}
    cwd = w["cwd"]
    c = rng.random()
    # how the caller spells the target: absolute, relative to the cwd, through '~' (HOME is $W/home), as a file:// URL
    tpath = "$W/out/" + target_name if c < 0.4 else os.path.relpath("out/" + target_name, cwd) if c < 0.75 else "~/../out/" + target_name if c < 0.88 else "file://$W/out/" + target_name
    save = {
        "path": tpath,
        "multifile": rng.random() < 0.6,
        "overwrite": rng.random() < 0.5,
        "format": rng.choice(["parser_mode", "yaml", "json", "json_indented"]),
        "skip_none": rng.random() < 0.7,
        "skip_validation": rng.random() < 0.12,
        "target": "out/" + target_name,
        "pre": pre,
        "as": rng.choice(["str", "str", "str", "pathlib", "Path_fc"]),
    }
    load = {"method": rng.choice(["path", "path", "args"]), "extra": rng.choice([[], ["--a=5"], ["--s=vz"]])}
    # saving back IN PLACE: the target lies in the directory the sub-files were loaded from (every sub-file's
    # destination is its own source), or is the loaded main file itself
    c = rng.random()
    if c < 0.22:
        save["inplace"] = "subdir" if c < 0.15 else "main"
        save["target"] = "src/B/" + rng.choice(["resaved.yaml", "main2.json"]) if c < 0.15 else "src/main.yaml"
        save["path"] = "$W/" + save["target"] if rng.random() < 0.5 else os.path.relpath(save["target"], cwd)
        if rng.random() < 0.75:
            save["overwrite"] = True
    # valid edits made to the loaded config before it is saved (kept apart from the invalidating 'mutate')
    edits = []
    if rng.random() < 0.6:
        cand = [{"path": ["s"], "value": "e%d" % rng.randint(1, 99)}]
        if not ("dg" in feats and "lk" in feats):  # 'a' is the source of a link: editing it alone leaves a config no parse produces
            cand.append({"path": ["a"], "value": rng.randint(100, 199)})
        for n in ("inner1", "inner2"):
            if n in feats:
                cand += [{"path": [n, "q"], "value": rng.randint(100, 199)}, {"path": [n, "v"], "value": [rng.randint(10, 19) + 0.5]}] * 2
        if "inner1" in feats and "deep" in feats:
            cand.append({"path": ["inner1", "deep", "r"], "value": rng.randint(100, 199)})
        if "dct" in feats:
            cand += [{"path": ["dct", "p"], "value": rng.randint(100, 199)}] * 2
        if "obj" in feats:
            cand += [{"path": ["obj", "init_args", "n"], "value": rng.randint(100, 199) + 0.0}] * 2
        edits = [copy.deepcopy(x) for x in rng.sample(cand, min(len(cand), rng.randint(1, 3)))]
    if nonascii:
        edits.append({"path": ["s"], "value": rng.choice(["caf\u00e9", "\u65e5\u672c", "x\u2192y", "na\u00efve \u20ac"])})
    spc = []
    if "p" in feats and rng.random() < 0.5:
        spc.append("p")
    classes = [rng.choice(["ValueError", "TypeError"]), rng.choice(["RuntimeError", "SimAbort", "OSError"])]
    return {"collide": collide, "parser": spec, "world": w, "load": load, "mutate": mut, "edits": edits, "save": save, "save_path_content": spc, "sweep": {"max_sites": 30 if tier == "quick" else 60, "cb_classes": classes, "os_errno": rng.choice(["EIO", "ENOSPC", "EACCES", "EMFILE"])}, "faults": [], "tier": tier}


# ---------------------------------------------------------------------------------------------------


class Unrep:
    """a value no dumper can represent"""


def obtain_cfg(p, sc, root):
    main = os.path.join(root, "src/main.yaml")
    if sc["load"]["method"] == "path":
        cfg = p.parse_path(main)
    else:
        cfg = p.parse_args(["--cfg", main] + list(sc["load"].get("extra", [])))
    for m in sc.get("mutate", []):
        if m.get("unrep"):
            cfg[m["key"]] = {"u": Unrep()}
        elif m["key"] in cfg or "." not in m["key"] or m["key"].rsplit(".", 1)[0] in cfg:
            cfg[m["key"]] = m["value"]
    for e in sc.get("edits", []):
        try:
            obj = cfg
            for k in e["path"][:-1]:
                obj = obj[k]
            if obj is not None and not isinstance(obj, str):
                obj[e["path"][-1]] = copy.deepcopy(e["value"])
        except (KeyError, TypeError):
            pass
    return cfg


def canon_cfg(p, cfg, sim):
    """canonical form for the success clause: meta stripped, Path values by content"""
    from jsonargparse import strip_meta

    def fix(v):
        if isinstance(v, list) and v and v[0] == "Path":
            return ["Path-content", _content(v)]
        if isinstance(v, list):
            return [fix(x) for x in v]
        return v

    def _content(v):
        ap = v[3].replace("$W", sim.root)
        try:
            with open(ap, "rb") as f:
                return f.read().decode("utf-8", "replace")
        except OSError:
            return "<unreadable>"

    c = strip_meta(cfg)
    c.pop("cfg", None)  # which config files were given on the command line is not part of the saved configuration
    return fix(canon_value(c, sim))


def allowed_paths(cfg, sc):
    """files the save may create or change: target + basenames of declared sub-files"""
    from jsonargparse import Namespace

    tdir = os.path.dirname(sc["save"]["target"])
    out = {sc["save"]["target"]}

    def walk(ns):
        for k, v in vars(ns).items() if isinstance(ns, Namespace) else ns.items():
            if isinstance(v, (Namespace, dict)):
                pth = v.get("__path__") if isinstance(v, dict) else getattr(v, "__path__", None)
                if pth is not None:
                    out.add(os.path.join(tdir, os.path.basename(pth.absolute)))
                walk(v)
            elif hasattr(v, "absolute") and hasattr(v, "relative"):
                out.add(os.path.join(tdir, os.path.basename(v.absolute)))

    walk(cfg)
    return out


def _diff(before, after):
    ch = {}
    for k in set(before) | set(after):
        b, a = before.get(k), after.get(k)
        if b != a:
            ch[k] = (b, a)
    return ch


def _effect(ch, before):
    """classify what happened to the storage"""
    effs = set()
    for k, (b, a) in ch.items():
        if b is None:
            if a[0] == "file" and a[2] == 0:
                effs.add("created-empty")
            else:
                effs.add("created")
        elif a is None:
            effs.add("existing-removed")
        elif b[0] == "file" and a[0] == "file":
            effs.add("existing-truncated" if a[2] == 0 else "existing-replaced")
        else:
            effs.add("existing-changed-kind")
    for e in ("existing-truncated", "existing-replaced", "existing-removed", "existing-changed-kind", "created-empty", "created"):
        if e in effs:
            return e
    return "none"


def cause_of(o, sim):
    """why did save raise?  'config' | 'env' | 'fault-os' | 'fault-declared' | 'fault-undeclared'.
    A fault only counts as the cause when the exception that came out IS the injected one (or wraps it):
    an injected ValueError that a Union fallback or suppress() swallowed is not why a later open() failed."""
    from jsonargparse._util import PathError

    ex = o.exc
    if o.injected:
        done = [f for f in sim.faults if f["_done"]]
        t = done[0]["fault"]["type"] if done else "oserror"
        if t == "raise":
            return "fault-declared" if done[0]["fault"]["cls"] in ("ValueError", "TypeError") else "fault-undeclared"
        return "fault-os"
    if any(f[3] in ("oserror", "torn") for f in sim.fired) and isinstance(ex, OSError):
        return "fault-os"
    if isinstance(ex, (OSError, PathError)):
        return "env"
    if isinstance(ex, ValueError) and "Refusing to overwrite" in str(ex):
        return "env"
    return "config"


def save_and_judge(sc, root, faults):
    """runs in a sub-fork: execute the save with the given fault plan, judge, report"""
    sim = rt.CUR
    sim.faults = [dict(f, _n=0, _done=False) for f in faults]
    ctx = harness.Ctx(sim, sc, sc.get("tier", "quick"), root)
    st = STATE
    p, cfg = st["parser"], st["cfg"]
    sv = sc["save"]
    before = world.snapshot(root)
    cwd0 = os.getcwd()
    cfg_before = json.dumps(canon_cfg(p, cfg, sim))
    sim.begin_op(1, "save")
    target = sv["path"]
    if sv.get("as") == "pathlib" and not target.startswith(("~", "file:")):
        import pathlib

        target = pathlib.Path(target)
    elif sv.get("as") == "Path_fc" and not target.startswith("file:"):
        from jsonargparse import Path as _P

        o0 = run_op(lambda: _P(sv["path"], "fc"))
        if o0.kind == "ret":
            target = o0.value
    o = run_op(lambda: p.save(cfg, target, format=sv["format"], skip_none=sv["skip_none"], skip_validation=sv["skip_validation"], overwrite=sv["overwrite"], multifile=sv["multifile"]))
    kinds = list(sim.op_kinds)
    sim.end_op()
    with rt.suspended():
        after = world.snapshot(root)
        ch = _diff(before, after)
        base = {"multifile": sv["multifile"], "overwrite": sv["overwrite"]}
        allowed = allowed_paths(cfg, sc)
        cause = None
        if o.kind != "ret":
            cause = cause_of(o, sim)
        # clause 1: no silent overwrite -- unconditional
        if not sv["overwrite"]:
            for k, (b, a) in sorted(ch.items()):
                if b is not None and b[0] in ("file",) and a != b:
                    ctx.violation("no-silent-overwrite", dict(base, cause=cause or "success", effect=_effect({k: (b, a)}, before)), "overwrite=False but existing file %s changed: %r -> %r (save outcome %s %s)" % (k, b, a, o.brief(), o.text[:200]))
                    break
        # an EXISTING file that is neither the target nor a declared sub-file must never be modified or removed;
        # a NEW stray file is only held against the save when it succeeded or failed because of the configuration
        # (after an injected OS error the statement promises nothing about left-overs, e.g. of a temp-file scheme)
        for k in sorted(ch):
            if ch[k][0] is None and cause in ("fault-os", "fault-undeclared", "env"):
                continue
            if k not in allowed and not (k.startswith("data/linked-") or k.startswith("data/nothing-")):
                ctx.violation("touched-undeclared-path", dict(base, cause=cause or "success", effect=_effect({k: ch[k]}, before)), "save changed %s which is neither the target nor a declared sub-file: %r" % (k, ch[k]))
                break
        if o.kind == "ret":
            # clause 4: success => re-parse reproduces the configuration, cwd unchanged
            if os.getcwd() != cwd0:
                ctx.violation("cwd-changed", dict(base, cause="success", effect="cwd"), "cwd %s -> %s" % (cwd0, os.getcwd()))
            if not sim.fired and not sv["skip_validation"]:
                sim.suspended -= 1
                try:
                    o2 = run_op(lambda: p.parse_path(os.path.join(root, sv["target"])))
                finally:
                    sim.suspended += 1
                if o2.kind != "ret":
                    ctx.violation("reparse", dict(base, cause="success", effect="reparse-fails"), "saved config does not parse: %s %s" % (o2.brief(), o2.text[:400]))
                else:
                    got = json.dumps(canon_cfg(p, o2.value, sim))
                    if got != cfg_before:
                        ctx.violation("reparse", dict(base, cause="success", effect="reparse-differs"), "saved: %s\nreparsed: %s" % (cfg_before[:600], got[:600]))
                    else:
                        sim.probe("save-ok-reparsed")
                        if sv.get("inplace") and sc.get("edits"):
                            sim.probe("save-ok-in-place-after-edits")
                if sv["multifile"] and len(allowed) > 1:
                    sim.probe("save-ok-multifile-with-subfiles")
        else:
            if cause == "env" and "Refusing to overwrite" in o.text:
                sim.probe("save-refused-overwrite")
            if cause in ("config", "fault-declared"):
                sim.probe("save-failed-config-cause")
                if ch:
                    ctx.violation("all-or-nothing", dict(base, cause=cause, exc=type(o.exc).__name__ if cause == "config" else "injected", effect=_effect(ch, before)), "save failed (%s: %s) yet the storage changed: %s" % (type(o.exc).__name__, o.text[:200], json.dumps({k: v for k, v in sorted(ch.items())}, default=repr)[:600]))
            if o.kind == "exc" and not isinstance(o.exc, (TypeError, KeyError, ValueError, OSError)) and not o.injected and cause == "config":
                pass  # an unusual exception class for a config cause is C03's business, not this property's
    if sim.fired:
        sim.probe("fault-in-save")
        if any(f[3] == "torn" for f in sim.fired):
            sim.probe("torn-write")
    touched = bool(ch) or (o.kind != "ret" and any(v != "absent" for v in sv["pre"].values())) or bool(sim.fired)
    return ctx.sub_result({"kinds": kinds, "brief": o.brief() + (":" + cause if cause else ""), "touched": touched})


STATE = {}
FAILABLE = ("open", "io.", "os.stat", "os.getcwd", "os.chdir", "cb:")


def execute(sc, ctx):
    sim, root = ctx.sim, ctx.root
    p = zoo.build(sc["parser"])
    for k in sc.get("save_path_content", []):
        p.save_path_content.add(k)
    sim.begin_op(0, "load")
    o = run_op(lambda: obtain_cfg(p, sc, root))
    ctx.record("load", o.brief())
    sim.end_op()
    if o.kind != "ret":
        ctx.notes["load"] = o.brief()
        return
    STATE.update(parser=p, cfg=o.value)
    if sc["world"].get("locale"):
        sim.probe("save-under-narrow-locale")
    if sc.get("collide") and sc["save"].get("multifile"):
        sim.probe("destination-names-collide")
    side = root + ".side"
    world.copy_tree(root, side)
    cwd = os.getcwd()
    try:
        st, gold = fork_call(save_and_judge, sc, root, [])
        if st != "ok":
            if st == "signal":
                ctx.violation("hang", {"cause": "none"}, "fault-free save died with signal %s" % gold)
                return
            raise RuntimeError("golden save failed: %r" % (gold,))
        ctx.absorb(gold)
        ctx.record("save", gold["brief"])
        ctx.nontrivial = gold["touched"]
        ctx.notes["params"] = [sc["save"]["multifile"], sc["save"]["overwrite"], sc["save"]["skip_validation"], sc["save"].get("inplace"), len(sc.get("edits", [])), sorted(m.get("key", "") for m in sc.get("mutate", [])), sorted(set(sc["save"]["pre"].values()))]
        if getattr(ctx, "golden", False) or not sc.get("sweep"):
            return
        sites = [(j, k) for j, k in enumerate(gold["kinds"]) if k.startswith(FAILABLE)]
        sites = sites[: sc["sweep"]["max_sites"]]
        swept = set()
        for j, kind in sites:
            if kind.startswith("cb:"):
                fts = [{"type": "raise", "cls": c} for c in sc["sweep"]["cb_classes"]]
            elif kind == "io.write":
                fts = [{"type": "torn"}, {"type": "oserror", "errno": "ENOSPC"}]
            else:
                fts = [{"type": "oserror", "errno": sc["sweep"]["os_errno"]}]
            for ft in fts:
                world.restore(root, side)
                os.chdir(cwd)
                sim.probe("sweep-site")
                st, res = fork_call(save_and_judge, sc, root, [{"op": 1, "site": "*", "k": j + 1, "fault": ft}])
                if st == "signal":
                    ctx.violation("hang", {"cause": ft["type"], "site": kind}, "save with fault at call %d (%s) died with signal %s" % (j + 1, kind, res))
                    continue
                if st != "ok":
                    raise RuntimeError("sweep save failed: %r" % (res,))
                ctx.absorb(res)
                swept.add("%s@%s=%s" % (ft["type"], kind, res["brief"]))
                ctx.notes["sweep"] = sorted(swept)
                if res["touched"]:
                    ctx.nontrivial = True
    finally:
        world._force_rmtree(side)
