import os, sys, io, json, random, re, warnings, contextlib, traceback, shutil
os.environ['COLUMNS']='100'
from typing import List, Dict, Optional, Any, Tuple, Union, Literal
from dataclasses import dataclass
from enum import Enum
import calendar
from jsonargparse import ArgumentParser, ActionConfigFile, ArgumentError, Namespace, ActionParser
from jsonargparse.typing import Path_fr, PositiveInt
W='/tmp/x3b/w'; shutil.rmtree(W, ignore_errors=True); os.makedirs(W+'/sub'); os.chdir(W)
files = {'ok.yaml':'a: 1\n', 'trunc.yaml':'a: 1\nl: [1, 2', 'bin.yaml':b'\x00\x01\xff\xfe a: 1', 'empty.yaml':'', 'rec.yaml':'x: &x [*x]\n', 'list.yaml':'- 1\n- 2\n',
  'sub/inner.yaml':'v: 3\n', 'nest.yaml':'inner: sub/inner.yaml\n', 'nestbad.yaml':'inner: sub/missing.yaml\n', 'cal.yaml':'class_path: calendar.TextCalendar\ninit_args:\n  firstweekday: 1\n', 'scalar.yaml':'5\n', 'tab.yaml':'a:\t1\n'}
for k,v in files.items(): open(k,'wb' if isinstance(v,bytes) else 'w').write(v)
os.mkdir('adir'); os.symlink('nothing','dangling'); os.mkfifo('fifo') if False else None
class E(Enum): A=1; B=2
@dataclass
class D: u: int = 1; v: str = 'x'
def mk(eoe):
    inner = ArgumentParser(exit_on_error=eoe); inner.add_argument('--v', type=int, default=1)
    p = ArgumentParser(exit_on_error=eoe, prog='app')
    p.add_argument('--cfg', action=ActionConfigFile)
    p.add_argument('--a', type=int, default=0); p.add_argument('--s', type=str, default=''); p.add_argument('--f', type=Optional[float]); p.add_argument('--b', type=bool, default=False)
    p.add_argument('--l', type=List[int], default=[]); p.add_argument('--d', type=Dict[str,int], default={}); p.add_argument('--t', type=Tuple[int,str]); p.add_argument('--x', type=Any)
    p.add_argument('--u', type=Union[int, List[str], None]); p.add_argument('--lit', type=Literal['a', 1, None]); p.add_argument('--e', type=Optional[E]); p.add_argument('--pi', type=Optional[PositiveInt])
    p.add_argument('--dd', type=Optional[D]); p.add_argument('--p', type=Optional[Path_fr]); p.add_argument('--pl', type=List[Path_fr], enable_path=True, default=[])
    p.add_argument('--cal', type=Optional[calendar.Calendar]); p.add_argument('--cals', type=List[calendar.Calendar], default=[]); p.add_argument('--dc', type=Dict[str, calendar.Calendar], default={})
    p.add_argument('--g.x', type=int, default=1); p.add_argument('--g.y', type=str, default='')
    p.add_argument('--inner', action=ActionParser(parser=inner))
    p.add_subclass_arguments(calendar.Calendar, 'sc')
    return p
KEYS=['a','s','f','b','l','d','t','x','u','lit','e','pi','dd','p','pl','cal','cals','dc','g.x','g.y','inner','inner.v','sc','cfg','g','print_config','help','cal.help','sc.help']
SUF=['','+','.','..x','.init_args','.init_args.firstweekday','.class_path','.dict_kwargs.k','.k','.0','.help','+.x','.u','.v']
VALS=['1','x','','null','true','-','--','=','1e3','[1,2]','[1','{"a":1}','{"a":','{}','[]','a: &x [*x]','&x [*x]','{"class_path":5}','{"class_path":"calendar.Calendar","init_args":{"firstweekday":"x"}}','{"class_path":"os.path"}','{"class_path":"os.path.join"}','{"init_args":{"firstweekday":1}}',
  'calendar.TextCalendar','TextCalendar','calendar','os.path','os.path.join','no.such.Mod','Calendar','{"u":"x"}','{"w":1}','{1:2}','[[1]]','[{"class_path":"calendar.Calendar"}]','!!python/object:os.system','*x','? a','- -','%YAML','"unterminated','\t','a\x00b','0x10','1_000','~','.inf','2024-01-01','{"a":{"b":{"c":1}}}','A','C','-1','0','ok.yaml','trunc.yaml','bin.yaml','empty.yaml','rec.yaml','list.yaml','nest.yaml','nestbad.yaml','cal.yaml','scalar.yaml','adir','dangling','nofile.yaml','sub/inner.yaml','tab.yaml','skip_null','comments','bogus,skip_null']
def rnd_argv(r):
    out=[]
    for _ in range(r.randint(1,4)):
        c=r.random()
        k=r.choice(KEYS)+r.choice(SUF if r.random()<.35 else [''])
        if r.random()<.08: k=r.choice(['','-','.','a b','é','+','a.','.a'])
        v=r.choice(VALS)
        if c<.5: out.append(f'--{k}={v}')
        elif c<.8: out+= [f'--{k}', v]
        elif c<.9: out.append(f'--{k}')
        else: out.append(v)
    return out
def rnd_obj(r, depth=0):
    c=r.random()
    if depth>2 or c<.3: 
        v=r.choice(VALS+[1,1.5,True,None,[1,'x'],{'a':1}, {1:2}, (1,'a'), {'class_path':'calendar.Calendar'}])
        if isinstance(v,str) and r.random()<.3:
            try: return json.loads(v)
            except Exception: return v
        return v
    return {r.choice(KEYS+['zz', 1, '', 'a.b', 'class_path', 'init_args', '__path__']): rnd_obj(r,depth+1) for _ in range(r.randint(0,3))}
def run(seed):
    r=random.Random(seed); eoe=r.random()<.3
    p=mk(eoe); c=r.random()
    if c<.55: op=('args', rnd_argv(r))
    elif c<.7:
        o=rnd_obj(r); 
        if not isinstance(o,dict): o={'a':o}
        op=('obj', o)
    elif c<.85:
        o=rnd_obj(r); op=('str', r.choice([json.dumps(o, default=str) if not any(not isinstance(k,str) for k in (o if isinstance(o,dict) else {})) else str(o), r.choice(VALS), 'a: 1\n'+r.choice(VALS), r.choice(KEYS)+': '+r.choice(VALS)]))
    elif c<.93: op=('env', {('APP_'+r.choice(KEYS).replace('.','__').upper()): r.choice(VALS) for _ in range(r.randint(1,3))})
    else: op=('path', r.choice(list(files)+['adir','dangling','nofile','-']))
    sys.stdin=io.StringIO(r.choice(['','a: 1\n','[1','\x00']))
    out=io.StringIO(); err=io.StringIO()
    try:
        with contextlib.redirect_stdout(out), contextlib.redirect_stderr(err), warnings.catch_warnings():
            warnings.simplefilter('ignore')
            if op[0]=='args': p.parse_args(op[1])
            elif op[0]=='obj': p.parse_object(op[1])
            elif op[0]=='str': p.parse_string(op[1])
            elif op[0]=='env': p.parse_env(op[1])
            else: p.parse_path(op[1])
        return None
    except ArgumentError:
        return None if not eoe else ('AE-in-exit-mode', op)
    except SystemExit as e:
        if e.code in (0,2) and eoe: return None
        if e.code==0: return None
        return ('exit%s'%e.code, op)
    except BaseException as e:
        tb=traceback.extract_tb(e.__traceback__)
        fr=[f for f in tb if '/repo/jsonargparse/' in f.filename]
        site = (os.path.basename(fr[-1].filename)+':'+fr[-1].name) if fr else '?'
        return ((type(e).__name__, site, op[0]), op, str(e)[:80])
N=int(sys.argv[1]); found={}
for s in range(N):
    x=run(s)
    if x: found.setdefault(x[0],[]).append((s,)+tuple(x[1:]))
for k,v in sorted(found.items(), key=lambda kv:-len(kv[1])): print(len(v), k, v[0])
print('classes', len(found), 'failing', sum(len(v) for v in found.values()), 'of', N)
