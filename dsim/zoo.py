"""Parser zoo: declarative parser spec (JSON data) -> jsonargparse.ArgumentParser.

Building twice from one spec yields two structurally identical, independent parsers."""
import copy
from datetime import timedelta
from decimal import Decimal
from typing import Any, Callable, Dict, List, Literal, Optional, OrderedDict, Set, Tuple, Type, Union

from jsonargparse import ActionConfigFile, ActionParser, ArgumentParser, lazy_instance
from jsonargparse.typing import Path_dc, Path_dw, Path_fc, Path_fr, path_type

from . import simtypes as S

TYPES = {
    "int": int,
    "float": float,
    "bool": bool,
    "str": str,
    "optint": Optional[int],
    "optstr": Optional[str],
    "literal": Literal["a", "b", 3],
    "enum": S.Color,
    "list_int": List[int],
    "list_float": List[float],
    "list_str": List[str],
    "list_list_int": List[List[int]],
    "list_list_float": List[List[float]],
    "dict_str_int": Dict[str, int],
    "dict_str_float": Dict[str, float],
    "dict_str_list_float": Dict[str, List[float]],
    "tuple_lf_i": Tuple[List[float], int],
    "list_tuple_ff": List[Tuple[float, float]],
    "optset_int": Optional[Set[int]],
    "any": Any,
    "list_any": List[Any],
    "dict_any": Dict[str, Any],
    "union_int_list": Union[int, List[int]],
    "union_int_float": Union[int, float],
    "path_fr": Path_fr,
    "path_fc": Path_fc,
    "path_dw": Path_dw,
    "path_dc": Path_dc,
    "opt_path_fr": Optional[Path_fr],
    "list_path_fr": List[Path_fr],
    "probe": S.Probe,
    "opt_probe": Optional[S.Probe],
    "list_probe": List[S.Probe],
    "dict_str_probe": Dict[str, S.Probe],
    "tuple_probe_int": Tuple[S.Probe, int],
    "opt_D": Optional[S.D],
    "D": S.D,
    "DP": S.DP,
    "base": S.Base,
    "opt_base": Optional[S.Base],
    "list_base": List[S.Base],
    "opt_abstract": Optional[S.AbstractBase],
    "opt_holder": Optional[S.Holder],
    "list_opt_holder": List[Optional[S.Holder]],
    "tuple_holder_int": Tuple[S.Holder, int],
    "opt_withpath": Optional[S.WithPath],
    "callable_base": Callable[[int], S.Base],
    "opt_model": Optional[S.Model],
    "pos_int": S.pos_int,
    "ate_int": S.ate_int,
    "positive_int": __import__("jsonargparse.typing", fromlist=["PositiveInt"]).PositiveInt,
    "unit_interval": __import__("jsonargparse.typing", fromlist=["ClosedUnitInterval"]).ClosedUnitInterval,
    "dict_int_str": Dict[int, str],
    "type_base": Type[S.Base],
    "opt_type_base": Optional[Type[S.Base]],
    "decimal": Decimal,
    "timedelta": timedelta,
    "opt_timedelta": Optional[timedelta],
    "list_D": List[S.D],
    "dict_str_D": Dict[str, S.D],
    "dict_str_base": Dict[str, S.Base],
    "odict_str_base": OrderedDict[str, S.Base],
    "opt_callable": Optional[Callable],
    "dout": S.DOut,
    "opt_dout": Optional[S.DOut],
}

CLASSES = {
    "Model": S.Model,
    "WithData": S.WithData,
    "Base": S.Base,
    "Sub1": S.Sub1,
    "Holder": S.Holder,
    "D": S.D,
    "DP": S.DP,
    "WithPath": S.WithPath,
    "AbstractBase": S.AbstractBase,
    "DI": S.DI,
    "LBase": S.LBase,
    "KW": S.KW,
    "DOut": S.DOut,
}
FUNCS = {"double": S.double, "base_n": S.base_n, "sfunc": S.sfunc}


def _default(d):
    if isinstance(d, dict) and "__lazy__" in d:
        return lazy_instance(CLASSES[d["__lazy__"]], **d.get("kw", {}))
    if isinstance(d, dict) and "__tuple__" in d:
        return tuple(_default(x) for x in d["__tuple__"])
    if isinstance(d, dict) and "__set__" in d:
        return set(d["__set__"])
    if isinstance(d, dict) and "__probe__" in d:
        return S.Probe(d["__probe__"])
    return copy.deepcopy(d)


def type_of(name):
    if name.startswith("pathmode:"):
        return path_type(name.split(":", 1)[1])
    return TYPES[name]


def _action(name):
    """argparse / jsonargparse actions that are not type hints"""
    import argparse

    from jsonargparse import ActionYesNo

    if name == "yesno":
        return ActionYesNo
    if name == "yesno_with":
        return ActionYesNo(yes_prefix="with-", no_prefix="without-")
    if name == "boa":
        return argparse.BooleanOptionalAction
    return name  # store_true, store_false, count, append, store_const, version


def add_arg(target, d):
    from jsonargparse import SUPPRESS

    kw = {}
    if "type" in d:
        kw["type"] = type_of(d["type"])
    if "action" in d:
        kw["action"] = _action(d["action"])
    for f in ("nargs", "enable_path", "sub_configs", "required", "help", "choices", "const", "version"):
        if f in d:
            kw[f] = d[f]
    if "default" in d:
        kw["default"] = SUPPRESS if d["default"] == "__suppress__" else _default(d["default"])
    names = [d["name"]] if d.get("positional") else ["--" + d["name"]] + list(d.get("short", []))
    target.add_argument(*names, **kw)


def build(spec, root=True):
    o = dict(spec.get("opts", {}))
    if root and "prog" not in o:
        o["prog"] = "app"
    p = ArgumentParser(**o)
    for d in spec.get("args", []):
        k = d["k"]
        if k == "arg":
            add_arg(p, d)
        elif k == "group":
            g = p.add_argument_group(d.get("title", "grp"))
            for a in d["args"]:
                add_arg(g, a)
        elif k == "mutex":
            g = p.add_mutually_exclusive_group(required=d.get("required", False))
            for a in d["args"]:
                add_arg(g, a)
        elif k == "function":
            p.add_function_arguments(FUNCS[d["fn"]], d["name"])
        elif k == "method":
            p.add_method_arguments(CLASSES[d["cls"]], d["method"], d["name"])
        elif k == "jsonnet":
            from jsonargparse import ActionJsonnet

            p.add_argument("--" + d["name"], action=ActionJsonnet(), **({"default": d["default"]} if "default" in d else {}))
        elif k == "jsonschema":
            from jsonargparse import ActionJsonSchema

            p.add_argument("--" + d["name"], action=ActionJsonSchema(schema=d["schema"]), **({"default": d["default"]} if "default" in d else {}))
        elif k == "cfg":
            p.add_argument("--" + d.get("name", "cfg"), action=ActionConfigFile)
        elif k == "class":
            kw = {}
            for f in ("sub_configs", "as_group", "fail_untyped"):
                if f in d:
                    kw[f] = d[f]
            if "default" in d:
                kw["default"] = _default(d["default"])
            p.add_class_arguments(CLASSES[d["cls"]], d["name"], **kw)
        elif k == "subclass":
            kw = {}
            for f in ("required", "sub_configs", "instantiate"):
                if f in d:
                    kw[f] = d[f]
            if "default" in d:
                kw["default"] = _default(d["default"])
            p.add_subclass_arguments(CLASSES[d["cls"]], d["name"], **kw)
        elif k == "inner":
            p.add_argument("--" + d["name"], action=ActionParser(parser=build(d["spec"], root=False)))
        elif k == "link":
            kw = {}
            if d.get("fn"):
                kw["compute_fn"] = FUNCS[d["fn"]]
            if d.get("on"):
                kw["apply_on"] = d["on"]
            p.link_arguments(d["src"], d["dst"], **kw)
        elif k == "subcommands":
            sc = p.add_subcommands(required=d.get("required", True), dest=d.get("dest", "subcommand"))
            for name, sub in d["cmds"].items():
                sc.add_subcommand(name, build(sub, root=False))
        elif k == "set_defaults":
            p.set_defaults({kk: _default(v) for kk, v in d["values"].items()})
        else:
            raise ValueError("unknown declaration " + k)
    return p
