"""C03 - every parse failure surfaces as ArgumentError or exit status 2, nothing else.

1-4 parse operations per run over a seeded parser, with arguments from a grammar built from the parser spec and
from the exception handlers of the anchored files, config paths pointing into a world whose files carry every
storage-state and content fault, stdin possibly closed, and (separate configuration) injected OS errors,
user-code exceptions and adversary steps during the operation."""
import base64
import copy
import json
import os

from .. import harness, rt, zoo
from ..harness import run_op

LEVEL = "exploration"
RUNS = {"quick": 12000, "thorough": 250000}
WALL = {"quick": 150, "thorough": 1500}
RULE = (
    "one run = one seeded parser (3-8 argument kinds out of 27, both exit_on_error modes) + world (config files in every storage "
    "state and with every content fault) + 1-4 parse operations (parse_args / parse_object / parse_string / parse_env / "
    "parse_path) built from the grammar, ~45 % of the runs with an injected fault; distinct = distinct (entry methods, outcome "
    "kinds, fired-fault set, argument-feature classes used); non-trivial = at least one operation was rejected or a fault "
    "fired inside an operation"
)
ASSUMPTIONS = [
    "strict oracle: Namespace | ArgumentError (exit_on_error=False) | exit 2 with usage and an error line (exit_on_error=True) | exit 0 when help or a config was printed",
    "relaxed oracle (only when an OS error, adversary step or undeclared user exception was injected during the op): the injected exception object itself may propagate, nothing else",
    "a user type's declared failures are ValueError and TypeError; anything else it raises is undeclared",
    "inputs that merely take long (alias bombs) are not generated: termination is judged with a 10 s CPU budget per run",
]
PROBES = ["deep-nesting", "url-or-fsspec-read-mode", "stdout-absent", "rejected-AE", "rejected-exit2", "exit0-printed", "fault-fired", "injected-propagated", "stdin-closed", "cfg-path-state-fault", "cfg-content-fault", "cyclic-alias", "subclass-bad-import", "env-list-broken-json", "nested-subconfig-fault"]
ANCHOR_FILES = ("_core", "_actions", "_typehints", "_util", "_loaders_dumpers")
NO_SHRINK = ("parser/opts", "parser/opts/*", "world/dirs", "world/cwd")
SHRINK_DICTS = ("world/files", "world/env", "world/symlinks", "ops/*/obj", "ops/*/env")

CYCLIC = ["&a [*a]", "&x {k: *x}", "&a [1, [2, *a]]"]
BADV = ["!!int abc", "!!timestamp abc", "!!int '_'", "!!float x", "!!bool maybe", "!!null x", "!!str [1]", "!!seq {a: 1}", "!!map [1]", "!!binary =", "1.e", "-.e1", "1e-", "[1", "{", '{"a":', "*nope", "!!python/object:os.system x", "\x00", "a\x00b", "", " ", "null", "~", "-", "1e999", "{1: 2}", "? [1,2] : 3", "\t", "\u00e9", "0x1F", "yes", "--", "-1", "=", "a=b=c", "{{}}", "[[[[[[[[[[]]]]]]]]]]", "!!binary abc", "--- a\n--- b", "key: [unclosed", "- 1\n- 2", "{a: 1, a: 2}", "!!set {1, 2}", "!!python/tuple [1]", ".inf", "1:30", "2001-01-01", "<<: {a: 1}", "\u00b2", "\u2460", "-\u00b2", "9" * 4400, "-" + "9" * 4400, "[" * 1500 + "]" * 1500, "[" * 480 + "]" * 480, "${nothere}", "${oc.env:NOT_SET}", "${", "${..}", "${oc.decode:1}"] + CYCLIC
CLASSP = ["Sub1", "Base", "dsim.simtypes.Sub2", "dsim.simtypes.Sub1", "Sub3", "dsim.simtypes.Sub3"]
BADCLASSP = ["dsim.badmod.Thing", "dsim.badsyntax.broken", "calendar.NoSuch", "os.path", "dsim.simtypes.Unrelated", "dsim.simtypes.AbstractBase", "no.such.module.X", "Sub1.", ".Sub1", "1bad.path", "dsim.simtypes", "dsim.simtypes.double", "dsim.simtypes.D", "json", "builtins.int", "Sub3", "calendar.Calendar", ""]
BADSPEC = [
    {"class_path": 3},
    {"class_path": "Sub1", "init_args": 5},
    {"class_path": "Sub1", "init_args": {"n": [1]}},
    {"init_args": {}},
    {"class_path": None},
    {"class_path": "Sub1", "dict_kwargs": 3},
    {"class_path": "Sub1", "init_args": {"child": {"class_path": "os.path"}}},
    {"class_path": "Sub1", "init_args": {"child": {"class_path": "Sub1", "init_args": {"child": 7}}}},
    {"class_path": "Sub1", "init_args": {"zz": 1}},
    {"class_path": ["Sub1"]},
    {"class_path": "dsim.simtypes.Sub2", "init_args": {"path": "nofile"}},
    [],
    {},
    {"class_path": "Sub1", "init_args": None, "extra": 1},
    {"class_path": "Sub3", "init_args": {"opts": {"a": 1}}},
]
GOODSPEC = [{"class_path": "dsim.simtypes.Sub1", "init_args": {"n": 2}}, {"class_path": "Base"}, {"class_path": "dsim.simtypes.Sub1", "init_args": {"child": {"class_path": "Base", "init_args": {"tags": [2]}}}}]

F = {
    "a": {"decl": {"type": "int", "default": 0}, "good": [1, -3], "bad": ["x", 1.5, [1], "", None]},
    "f": {"decl": {"type": "float", "default": 0.5}, "good": [1.5, 2], "bad": ["x", [1], "9" * 400, "-" + "9" * 400], "num": True},
    "b": {"decl": {"type": "bool", "default": False}, "good": [True, False], "bad": ["maybe", 3]},
    "s": {"decl": {"type": "str", "default": "s0"}, "good": ["v1", "x y"], "bad": [3, [1]]},
    "o": {"decl": {"type": "optint", "default": None}, "good": [4, None], "bad": ["x"]},
    "lit": {"decl": {"type": "literal", "default": "a"}, "good": ["a", "b", 3], "bad": ["z", 4]},
    "en": {"decl": {"type": "enum", "default": "red"}, "good": ["red", "green"], "bad": ["blue", 1]},
    "l": {"decl": {"type": "list_int", "default": []}, "good": [[1, 2], []], "bad": ["[1,", [1, "x"], 3, {"a": 1}], "append": True},
    "ll": {"decl": {"type": "list_list_int", "default": []}, "good": [[[1], [2, 3]]], "bad": [[1], [["x"]]], "append": True},
    "d": {"decl": {"type": "dict_str_int", "default": {}}, "good": [{"k": 1}], "bad": [{"k": "x"}, [1], "x"], "sub": ["k", "k.j", "1"]},
    "t": {"decl": {"type": "tuple_lf_i", "default": None}, "good": [[[1.5], 2]], "bad": [[1], [[1], 2, 3], "x"]},
    "st": {"decl": {"type": "optset_int", "default": None}, "good": [[1, 2]], "bad": [["x"], 3]},
    "any": {"decl": {"type": "any", "default": None}, "good": [1, "x", {"q": [1]}, [1, {"z": 2}]], "bad": [], "anyval": True},
    "lany": {"decl": {"type": "list_any", "default": []}, "good": [[1, "x"]], "bad": [3], "anyval": True, "append": True},
    "dany": {"decl": {"type": "dict_any", "default": {}}, "good": [{"k": [1]}], "bad": [3], "anyval": True, "sub": ["k", "k.j"]},
    "u": {"decl": {"type": "union_int_list", "default": 0}, "good": [1, [1, 2]], "bad": ["x", {"a": 1}], "append": True},
    "dd": {"decl": {"type": "opt_D", "default": None}, "good": [{"u": 2}, {"u": 3, "w": [1.5]}], "bad": [{"u": "x"}, {"zz": 1}, 3, [1]], "sub": ["u", "w", "zz", "u.v"]},
    "base": {"decl": {"type": "opt_base", "default": None}, "good": GOODSPEC + CLASSP, "bad": BADSPEC + BADCLASSP, "sub": ["n", "tags", "child", "child.n", "init_args.n", "class_path", "zz", "help", "n.x", "opts.a", "dict_kwargs.q"], "cls": True},
    "abs": {"decl": {"type": "opt_abstract", "default": None}, "good": ["dsim.simtypes.Concrete"], "bad": BADCLASSP + BADSPEC[:4], "sub": ["z", "help"], "cls": True},
    "hold": {"decl": {"type": "opt_holder", "default": None}, "good": ["Holder", {"class_path": "dsim.simtypes.Holder", "init_args": {"inner": "Base"}}], "bad": BADSPEC[:6], "sub": ["inner", "inner.n", "inner.init_args.tags", "m", "help"], "cls": True},
    "lb": {"decl": {"type": "list_base", "default": []}, "good": [[{"class_path": "Base"}]], "bad": [[{"class_path": "os.path"}], "x", [3]], "sub": ["n", "class_path"], "append": True, "cls": True},
    "cb": {"decl": {"type": "callable_base"}, "good": ["Sub1", "dsim.simtypes.make_base"], "bad": BADCLASSP[:8], "sub": ["n", "help", "tags"], "cls": True},
    "tb": {"decl": {"type": "opt_type_base", "default": None}, "good": ["dsim.simtypes.Sub1", "dsim.simtypes.Base"], "bad": BADCLASSP + [3, [1], {"class_path": "Sub1"}]},
    "tbp": {"decl": {"type": "type_base", "default": "dsim.simtypes.Base"}, "good": ["dsim.simtypes.Sub1"], "bad": BADCLASSP + [3, [1], {"class_path": "Sub1"}]},
    "td": {"decl": {"type": "timedelta", "default": "0:00:01"}, "good": ["1:02:03", "2 days, 0:00:00"], "bad": ["99999999999999999999:0:0", "x", "1:99999999999999999999999:0", [1], 3, "-1:-1:-1"]},
    "otd": {"decl": {"type": "opt_timedelta", "default": None}, "good": ["1:02:03", None], "bad": ["99999999999999999999:0:0", "x", [1]]},
    "dec": {"decl": {"type": "decimal", "default": "1.5"}, "good": ["2.5", 3], "bad": ["abc", [1], "1,5", "NaN"]},
    "ld": {"decl": {"type": "list_D", "default": []}, "good": [[{"u": 2}], []], "bad": [[{"u": "x"}], [{"zz": 1}], [3], {"u": 1}, "x", [{"class_path": "dsim.simtypes.D"}], [{"class_path": "dsim.simtypes.D", "init_args": {"u": "x"}}], [{"class_path": 3}]], "append": True, "sub": ["u", "0.u"]},
    "dsd": {"decl": {"type": "dict_str_D", "default": {}}, "good": [{"k": {"u": 2}}], "bad": [{"k": {"u": "x"}}, {"k": 3}, {"k": {"zz": 1}}, [1]], "sub": ["k", "k.u", "k.zz"]},
    "fnc": {"decl": {"type": "opt_callable", "default": None}, "good": ["dsim.simtypes.double", "os.path.join"], "bad": BADCLASSP[:6] + [3]},
    "pr": {"decl": {"type": "opt_probe", "default": None}, "good": ["p:x"], "bad": ["bad", 3, [1]]},
    "lpr": {"decl": {"type": "list_probe", "default": []}, "good": [["p:a", "p:b"], []], "bad": [["bad"], [3], "p:x", {"k": "p:a"}], "append": True},
    "dpr": {"decl": {"type": "dict_str_probe", "default": {}}, "good": [{"k": "p:a"}], "bad": [{"k": "bad"}, {"k": 3}, ["p:a"]], "sub": ["k", "k.j"]},
    "tpr": {"decl": {"type": "tuple_probe_int", "default": None}, "good": [["p:a", 2]], "bad": [["bad", 2], ["p:a", "x"], ["p:a"], 3]},
    "n2": {"decl": {"type": "int", "nargs": 2, "default": [1, 2]}, "good": [[3, 4]], "bad": [[7], [1, 2, 3], 5, ["x", 1], []], "nargs": True},
    "pin": {"decl": {"type": "pos_int", "nargs": "+", "default": [1]}, "good": [[1, 2]], "bad": [["x"], [-1], 3], "nargs": True},
    "p": {"decl": {"type": "opt_path_fr", "default": None}, "good": ["good.yaml", "$W/run/good.yaml"], "bad": [], "path": True},
    "pl": {"decl": {"type": "list_path_fr", "default": [], "enable_path": True}, "good": [["good.yaml"], "list.txt"], "bad": [["nofile"], 3], "path": True, "append": True},
    "pfc": {"decl": {"type": "path_fc", "default": "newfile"}, "good": ["newfile2"], "bad": ["nodir/x"], "path": True},
    "ch": {"decl": {"nargs": "+", "choices": ["x", "y"], "default": ["x"]}, "good": [["x", "y"], ["y"]], "bad": ["x", ["z"], 3, {"a": 1}, []], "nargs": True},
    "ch1": {"decl": {"choices": ["x", "y"], "default": "x"}, "good": ["x", "y"], "bad": ["z", 3, ["x"]]},
    "pi": {"decl": {"type": "pos_int", "default": 1}, "good": [3, "4"], "bad": ["x", -1, [1]]},
    "n": {"decl": {"type": "float", "nargs": "+", "default": [1.0]}, "good": [[1, 2]], "bad": [["x"]], "nargs": True},
    "pint": {"decl": {"type": "positive_int", "default": 1}, "good": [3, "4"], "bad": ["x", -1, 1.5, 0, [1], ".inf", "1e999"], "num": True},
    "unit": {"decl": {"type": "unit_interval", "default": 0.5}, "good": [0.25, 1], "bad": ["x", 2, -0.5, [1], "9" * 400], "num": True},
    "dis": {"decl": {"type": "dict_int_str", "default": {}}, "good": [{"1": "a"}], "bad": ["{.inf: a}", {"x": "a"}, 3, "{1.5: a}", "{-.inf: b}"], "num": True},
    "ate": {"decl": {"type": "ate_int", "default": 1}, "good": [3, "4"], "bad": ["x", -1, [1], None, 1.5]},
    "jn": {"decl": {"k": "jsonnet"}, "good": [{"layers": 1}, '{"a": 1}', "{a: 1 + 1}"], "bad": ["{bad", 3, "[1", "local x = ; x", "good.yaml", "missing.yaml", [1]], "path": False},
    "js": {"decl": {"k": "jsonschema", "schema": {"type": "object", "properties": {"k": {"type": "integer"}}, "additionalProperties": False}}, "good": [{"k": 1}, '{"k": 2}'], "bad": [{"k": "x"}, {"zz": 1}, "{bad", 3, [1], "good.yaml", "missing.yaml"]},
    # actions that are not type hints, argparse's own nargs / const / SUPPRESS, groups, signatures (round 9)
    "yn": {"decl": {"action": "yesno", "default": False}, "good": [True, False], "bad": ["maybe", 3, [1]], "names": ["--no_yn"], "flag": True},
    "wx": {"decl": {"name": "with-wx", "action": "yesno_with", "nargs": "?"}, "good": [True, False], "bad": ["maybe", 3], "names": ["--with-wx", "--without-wx", "--with-wx=false"], "flag": True},
    "stt": {"decl": {"action": "store_true"}, "good": [True], "bad": ["x", 3], "flag": True},
    "cnt": {"decl": {"action": "count", "default": 0, "short": ["-c"]}, "good": [2], "bad": ["x", [1]], "names": ["-c", "-ccc", "-cx", "-c=2"], "flag": True},
    "app": {"decl": {"action": "append"}, "good": [["1"]], "bad": [3, {"a": 1}]},
    "boa": {"decl": {"action": "boa"}, "good": [True, False], "bad": ["x", 3], "names": ["--no-boa", "--no-boa=1"], "flag": True},
    "scn": {"decl": {"action": "store_const", "const": 5}, "good": [5], "bad": ["x"], "flag": True},
    "nq": {"decl": {"type": "int", "nargs": "?", "const": 7, "default": 1}, "good": [3], "bad": ["x", [1]], "flag": True},
    "nst": {"decl": {"type": "int", "nargs": "*"}, "good": [[1, 2], []], "bad": [["x"], 3], "nargs": True},
    "sup": {"decl": {"type": "int", "default": "__suppress__"}, "good": [1], "bad": ["x", [1]]},
    "g": {"decl": {"k": "group", "args": [{"name": "g.a", "type": "int", "default": 1}, {"name": "g.b", "type": "optstr", "default": None}, {"name": "g.l", "type": "list_int", "default": []}]}, "good": [{"a": 2}, {"b": "t"}, {"l": [1]}], "bad": [3, {"a": "x"}, {"zz": 1}, [1], {"l+": "x"}], "sub": ["a", "b", "zz", "l", "l+"]},
    "mx": {"decl": {"k": "mutex", "args": [{"name": "mx1", "type": "int"}, {"name": "mx2", "type": "int"}]}, "good": [1], "bad": ["x"], "names": ["--mx1", "--mx2", "--mx1=1", "--mx2=2"]},
    "fn": {"decl": {"k": "function", "fn": "sfunc"}, "good": [{"a": 2}, {"c": 1.5}], "bad": [{"a": "x"}, 3, {"zz": 1}, {"kw": {"q": 1}}, [1]], "sub": ["a", "b", "c", "kw", "zz", "kw.q"]},
    "me": {"decl": {"k": "method", "cls": "KW", "method": "meth"}, "good": [{"z": [2]}, {"y": "t"}], "bad": [{"z": "x"}, {"z": ["x"]}, 3, {"self": 1}], "sub": ["z", "y", "z+", "self"]},
    "kw": {"decl": {"k": "class", "cls": "KW"}, "good": [{"a": 2}], "bad": [{"a": "x"}, {"kwargs": {"q": 1}}, {"b": 1}, 3, {"class_path": "dsim.simtypes.KW"}], "sub": ["a", "kwargs", "b", "kwargs.q"]},
    "out": {"decl": {"type": "opt_dout", "default": None}, "good": [{"inner": {"p": 3}}, {"items": [{"p": 1}], "m": {"k": {"p": 2}}}, {"opt": {"q": ["a"]}}, {"nums": [1]}], "bad": [{"inner": 3}, {"items": [{"p": "x"}]}, {"m": {"k": 3}}, {"zz": 1}, 3, [1], {"items": [{"q": "a"}]}, {"opt": {"zz": 1}}, {"items+": [{"p": 1}]}, {"nums+": 2}, {"items+": {"p": "x"}}, {"m": {"k": {"p": "x"}}}, {"inner": {"class_path": "dsim.simtypes.DIn"}}], "sub": ["inner", "inner.p", "opt", "opt.q", "opt.q+", "items", "items+", "m", "m.k", "m.k.p", "nums", "nums+", "zz", "inner.q+"], "append": True},
    "dc": {"decl": {"k": "class", "cls": "DOut"}, "good": [{"inner": {"p": 3}}, {"items": [{"p": 1}]}, {"m": {"k": {"p": 2}}}], "bad": [{"inner": 3}, {"items": [{"p": "x"}]}, {"m": {"k": 3}}, {"zz": 1}, 3, {"items+": [{"p": 1}]}, {"nums+": [2]}, {"items+": 3}], "sub": ["inner", "inner.p", "opt", "opt.q", "items", "items+", "m", "m.k", "m.k.p", "nums", "nums+", "zz"]},
}
SUBVALS = [1, "x", [1], [{"p": 1}], {"p": 1}, {"k": {"p": 1}}, None, [1.5], {"a": 1}, [{"p": "x"}], "Sub1", {"class_path": "Base"}, [["a"]], ["a"]]
PATH_STATES = ["good.yaml", "missing.yaml", "dir.yaml", "fifo.pipe", "fifogood.pipe", "dangling.yaml", "thru/x.yaml", "noperm.yaml", "$W/run/good.yaml", "~/h.yaml", "../run/good.yaml", "-", "nodir/x.yaml", "a\x00b.yaml", "", " ", ".", "good.yaml/", "--"]
DEEP_RUN = "[" * 1000  # deeper than the interpreter's recursion limit allows
MID_RUN = "[" * 300  # deep, but well within it: has to load
CONTENT_FAULTS = ["inf", "deep-limit", "interp", "digits", "truncated", "flip", "nonutf8", "empty", "binary", "nul", "cyclic", "cyclic-any", "list-doc", "scalar-doc", "dupkeys", "tabs", "bom", "unknown-key", "bad-value", "deep", "nonstr-keys", "merge-key", "multi-doc"]
METHODS = ["args", "args", "args", "object", "string", "env", "path"]


def _t(v):
    return v if isinstance(v, str) else json.dumps(v)


def good_doc(rng, feats, sub=None):
    d = {}
    for f in feats:
        if f in F and rng.random() < 0.5 and F[f]["good"] and "k" not in F[f]["decl"] or f in ("g", "fn", "me", "kw", "dc") and rng.random() < 0.5:
            d[f + "+" if F[f].get("append") and rng.random() < 0.12 else f] = copy.deepcopy(rng.choice(F[f]["good"]))
    if "inner" in feats and rng.random() < 0.5:
        d["inner"] = rng.choice([{"q": 3}, "inner.yaml", "innerbad.yaml", "missing.yaml"])
    return d


def make_content(rng, kind, feats):
    doc = good_doc(rng, feats)
    txt = json.dumps(doc)
    if kind == "truncated":
        return {"text": txt[: rng.randint(0, max(0, len(txt) - 1))]}
    if kind == "flip":
        b = bytearray(txt.encode() or b"{}")
        i = rng.randrange(len(b))
        b[i] ^= 1 << rng.randrange(8)
        return {"b64": base64.b64encode(bytes(b)).decode()}
    if kind == "nonutf8":
        return {"b64": base64.b64encode(b"\xff\xfea: 1\n" if rng.random() < 0.5 else txt.encode() + b"\n# \xe9\xff\n").decode()}
    if kind == "empty":
        return {"text": rng.choice(["", "\n", "# c\n"])}
    if kind == "binary":
        return {"b64": base64.b64encode(bytes(rng.randrange(256) for _ in range(rng.randint(1, 40)))).decode()}
    if kind == "nul":
        return {"text": "a: 1\x00\n"}
    if kind == "cyclic":
        return {"text": rng.choice(["x: &a [*a]\n", "&r {a: 1, self: *r}\n", "a: 1\nb: &b {c: *b}\n"])}
    if kind == "cyclic-any":
        k = [f for f in feats if F.get(f, {}).get("anyval")] or ["any"]
        return {"text": "%s: &a {k: *a}\n" % rng.choice(k)}
    if kind == "list-doc":
        return {"text": "- 1\n- 2\n"}
    if kind == "scalar-doc":
        return {"text": rng.choice(["3\n", "text\n", "null\n", "true\n"])}
    if kind == "dupkeys":
        return {"text": "a: 1\na: 2\n"}
    if kind == "tabs":
        return {"text": "a:\t1\n\tb: 2\n"}
    if kind == "bom":
        return {"text": "\ufeff" + txt}
    if kind == "unknown-key":
        doc[rng.choice(["zz", "zz", "cfg", "print_config", "help", "__path__", "subcommand"])] = rng.choice([1, "good.yaml", None, ["good.yaml"]])
        return {"text": json.dumps(doc)}
    if kind == "bad-value":
        fs = [f for f in feats if f in F and F[f]["bad"]]
        if fs:
            f = rng.choice(fs)
            doc[f] = copy.deepcopy(rng.choice(F[f]["bad"]))
        return {"text": json.dumps(doc)}
    if kind == "inf":
        # numbers YAML loads that do not fit the declared type: infinities, nan, integers beyond a float's range
        fs = [f for f in feats if F.get(f, {}).get("num") or f in ("a", "o", "l", "d", "n", "pi", "td")] or ["a"]
        f = rng.choice(fs)
        v = rng.choice([".inf", "-.inf", ".nan", "1e999", "9" * 400, "{.inf: a}", "[.inf]", "{k: .inf}", "[" + "9" * 400 + "]"])
        return {"text": "%s: %s\n" % (f, v)}
    if kind == "deep-limit":
        k = [f for f in feats if F.get(f, {}).get("anyval")] or ["any"]
        c = rng.random()
        n = rng.choice([1500, 1500, 480])
        return {"text": ("%s: " % rng.choice(k) if c < 0.6 else "" if c < 0.8 else '{"%s": ' % rng.choice(k)) + "[" * n + "]" * n + ("}" if c >= 0.8 else "") + "\n"}
    if kind == "interp":
        fs = [f for f in feats if f in F and "k" not in F[f]["decl"]] or ["a"]
        return {"text": rng.choice(["%s: ${nothere}\n", "%s: ${oc.env:NOT_SET}\n", "%s: ${\n", "%s: ${..}\n", "zz: 1\n%s: ${zz}\n", "%s: ${%s}\n", "%s: ${oc.decode:1}\n"]).replace("%s", rng.choice(fs))}
    if kind == "digits":
        return {"text": rng.choice(["\u00b2", "\u2460\n", "-\u00b2", "9" * 4400, "-" + "9" * 4400 + "\n", "\u0663"])}
    if kind == "deep":
        return {"text": "any: " + "[" * 60 + "]" * 60 + "\n"}
    if kind == "nonstr-keys":
        return {"text": "{1: 2, [3]: 4}\n" if rng.random() < 0.5 else "1: {2: 3}\n"}
    if kind == "merge-key":
        return {"text": "base: &b {a: 1}\nother:\n  <<: *b\n"}
    if kind == "multi-doc":
        return {"text": "a: 1\n---\na: 2\n"}
    raise ValueError(kind)


def opt_name(rng, feats, all_feats):
    """known / unknown / malformed option names"""
    c = rng.random()
    f = rng.choice(feats) if feats else "a"
    info = F.get(f, {})
    if c < 0.3 and info.get("names"):
        return rng.choice(info["names"]), f
    if c < 0.5:
        return "--" + f, f
    if c < 0.68 and info.get("sub"):
        return "--%s.%s" % (f, rng.choice(info["sub"])), f
    if c < 0.76 and info.get("append"):
        return "--%s+" % f, f
    if c < 0.82:
        return "--" + rng.choice([x for x in all_feats if x not in feats] or ["zz"]), None
    return rng.choice(["--%s." % f, "--.%s" % f, "--%s..x" % f, "--%s+" % f, "--%s++" % f, "--%s.+" % f, "--", "-", "=", "--=1", "---" + f, "--%s.help" % f, "--%s.x.y.z" % f, "-" + f, "--%s " % f, "--zz.y", "--%s.init_args" % f, "--cfg.x", "--print_config.x", "--help.x", "-h=1"]), f


def value_for(rng, f):
    info = F.get(f) if f else None
    c = rng.random()
    if info is None:
        return _t(rng.choice(BADV + ["1", "x"]))
    if info.get("path"):
        return rng.choice(PATH_STATES) if c < 0.8 else _t(rng.choice(BADV))
    if c < 0.4 and info["good"]:
        return _t(rng.choice(info["good"]))
    if c < 0.7 and info["bad"]:
        return _t(rng.choice(info["bad"]))
    if info.get("anyval") and c < 0.85:
        return rng.choice(CYCLIC + ['{"class_path": "dsim.simtypes.Base"}', '{"class_path": "os.path"}', '{"class_path": "Sub1", "init_args": {"child": {"class_path": 3}}}'])
    if info.get("cls") and c < 0.85:
        return rng.choice(CYCLIC + PATH_STATES)
    return _t(rng.choice(BADV))


def gen_argv(rng, feats, all_feats, spec_feats):
    argv = []
    n = rng.choice([0, 1, 1, 2, 2, 3, 4])
    for _ in range(n):
        c = rng.random()
        if c < 0.12 and "cfg" in spec_feats:
            v = rng.choice(PATH_STATES + ["inline", "badinline", "fault.yaml", "fault2.yaml", "--"])
            if v == "inline":
                v = json.dumps(good_doc(rng, feats))
            elif v == "badinline":
                v = rng.choice(BADV + ['{"zz": 1}', '{"a": "x"}', '{"cfg": "good.yaml"}', "cfg: good.yaml", '{"cfg": null}', '{"print_config": ""}'])
            argv += ["--cfg=" + v] if rng.random() < 0.4 else ["--cfg", v]
        elif c < 0.18 and "cfg" in spec_feats:
            argv.append(rng.choice(["--print_config", "--print_config=skip_null", "--print_config=bogus", "--print_config=--", "--print_config=", "--print_config=comments", "--print_config=skip_default,skip_null"]))
        elif c < 0.22:
            argv.append(rng.choice(["--help", "-h", "--version", "--print_shtab=bash"]))
        elif c < 0.30 and "inner" in spec_feats:
            argv += rng.choice([["--inner", rng.choice(PATH_STATES + ["inner.yaml", "innerbad.yaml", "fault.yaml"])], ["--inner.q=3"], ["--inner.q=x"], ["--inner.zz=1"], ["--inner", '{"q": 1}'], ["--inner", rng.choice(BADV)], ["--inner.p=" + rng.choice(PATH_STATES)]])
        else:
            name, f = opt_name(rng, feats, all_feats)
            v = value_for(rng, f)
            form = rng.random()
            if "=" in name or (F.get(f, {}).get("flag") and form < 0.6):
                argv.append(name)
            elif F.get(f, {}).get("nargs") and form < 0.5:
                argv += [name] + [value_for(rng, f) for _ in range(rng.randint(0, 3))]
            elif form < 0.5:
                argv.append(name + "=" + v)
            elif form < 0.92:
                argv += [name, v]
            else:
                argv.append(name)
    if "cfg" in spec_feats and rng.random() < 0.06:
        # printing only what differs from the defaults, after a class was chosen for a class-typed argument
        cls = [f for f in feats if F[f].get("cls") and isinstance(F[f]["good"][0], (str, dict))]
        if cls:
            f = rng.choice(cls)
            argv = ["--%s=%s" % (f, _t(rng.choice(F[f]["good"]))), rng.choice(["--print_config=skip_default", "--print_config=skip_default,skip_null"])]
    if "base" in feats and rng.random() < 0.15:
        argv += rng.choice([["--base=Sub1", '--base.opts={"a": 1}', "--base=Sub3"], ["--base=Sub3", "--base.opts=2", "--base=Sub1"], ["--base=Sub1", "--base.child=Sub3", "--base.child.opts=x"], ["--base=Sub1", "--base.n=1", "--base=dsim.simtypes.Sub2", "--base.path=" + rng.choice(PATH_STATES)]])
    if "sub" in spec_feats and rng.random() < 0.7:
        argv += rng.choice([["--cfg", "{fit: 3}", "fit"], ["--cfg", "{fit: null}", "fit"], ["--cfg", "{test: x}", "test", "nm"], ["fit", "--lr=0.3"], ["fit", "--lr=x"], ["fit"], ["test", "nm"], ["test"], ["bogus"], ["fit", "--cfg", rng.choice(PATH_STATES)], ["fit", "--zz"], ["test", "nm", "extra"], ["fit", "--lr"], ["fit", "--model=Model", "--model.base=" + rng.choice(CLASSP + BADCLASSP)], ["fit", "--help"], ["fit", "--print_config"]])
    if "pos" in spec_feats and rng.random() < 0.6:
        argv.insert(rng.randrange(len(argv) + 1), rng.choice(["posval", "-", "--", "x y"]))
    return argv


def gen_obj(rng, feats, spec_feats):
    o = {}
    for _ in range(rng.choice([0, 1, 1, 2, 3])):
        c = rng.random()
        f = rng.choice(feats) if feats else "a"
        info = F.get(f, {"good": [1], "bad": ["x"]})
        if c < 0.35 and info["good"]:
            o[f + "+" if info.get("append") and rng.random() < 0.2 else f] = copy.deepcopy(rng.choice(info["good"]))
        elif c < 0.55 and info["bad"]:
            o[f + "+" if info.get("append") and rng.random() < 0.2 else f] = copy.deepcopy(rng.choice(info["bad"]))
        elif c < 0.65 and info.get("sub"):
            # a sub-key (possibly an append 'key+') spelled dotted or nested
            sk = rng.choice(info["sub"])
            v = copy.deepcopy(rng.choice(SUBVALS))
            if rng.random() < 0.5:
                o[f + "." + sk] = v
            else:
                for part in reversed(sk.split(".")):
                    v = {part: v}
                o[f] = v
        elif c < 0.65 and info["bad"]:
            o[f] = copy.deepcopy(rng.choice(info["bad"]))
        elif c < 0.75:
            o[rng.choice(["zz", "a..b", "", " a", "a.", ".a", "a b", "a.b.c", f + ".zz", f + ".", "cfg", "__path__", "print_config", "help"])] = rng.choice([1, None, {"x": 1}])
        elif c < 0.85 and info.get("path"):
            o[f] = rng.choice(PATH_STATES)
        elif c < 0.92:
            o[f] = {"__special__": rng.choice(["tuple", "set", "object", "nonstr-keys", "namespace", "bytes", "nan"])}
        else:
            o[f] = rng.choice(BADV)
    if "inner" in spec_feats and rng.random() < 0.25:
        o["inner"] = rng.choice([{"q": 3}, {"q": "x"}, {"zz": 1}, "inner.yaml", "missing.yaml", "fault.yaml", 3, None, ["x"]])
    if "sub" in spec_feats and rng.random() < 0.4:
        o.update(rng.choice([{"subcommand": "fit", "fit": 3}, {"subcommand": "fit", "fit": None}, {"subcommand": "test", "test": "x"}, {"subcommand": "fit", "fit": [1]}, {"fit": {"lr": 0.2}}, {"fit": {"lr": "x"}}, {"subcommand": "test", "test": {"name": "n"}}, {"subcommand": "nope"}, {"fit": 3}, {"fit": {"lr": 0.2}, "test": {"name": "q"}}, {"subcommand": 3}, {"fit": None}]))
    return o


def gen_env(rng, feats, spec_feats):
    e = {}
    for _ in range(rng.choice([0, 1, 1, 2, 3])):
        f = rng.choice(feats) if feats else "a"
        e["APP_" + f.upper()] = value_for(rng, f)
    if "cfg" in spec_feats and rng.random() < 0.3:
        e["APP_CFG"] = rng.choice(PATH_STATES + ["fault.yaml", json.dumps(good_doc(rng, feats))] + BADV[:6])
    if "sub" in spec_feats and rng.random() < 0.4:
        e.update(rng.choice([{"APP_SUBCOMMAND": "fit", "APP_FIT__LR": "0.4"}, {"APP_SUBCOMMAND": "nope"}, {"APP_SUBCOMMAND": "fit", "APP_FIT__LR": "x"}, {"APP_SUBCOMMAND": "test"}, {"APP_FIT__LR": "3"}]))
    if "inner" in spec_feats and rng.random() < 0.2:
        e["APP_INNER"] = rng.choice(["inner.yaml", "missing.yaml", "fault.yaml", '{"q": 2}', "[1"])
    return e


def generate(rng, tier):
    all_feats = list(F)
    feats = rng.sample(all_feats, rng.randint(3, 8))
    spec_feats = set(feats)
    for x, pr in (("cfg", 0.7), ("inner", 0.35), ("sub", 0.3), ("pos", 0.12), ("link", 0.5 if "a" in feats else 0.0)):
        if rng.random() < pr:
            spec_feats.add(x)
    if "pos" in spec_feats and "sub" in spec_feats:
        spec_feats.discard("pos")
    eoe = rng.random() < 0.4
    args = []
    if "cfg" in spec_feats:
        args.append({"k": "cfg"})
    for f in feats:
        args.append(dict({"k": "arg", "name": f}, **F[f]["decl"]))
    if "inner" in spec_feats:
        args.append({"k": "inner", "name": "inner", "spec": {"opts": {"exit_on_error": eoe}, "args": [{"k": "arg", "name": "q", "type": "int", "default": 0}, {"k": "arg", "name": "p", "type": "opt_path_fr", "default": None}, {"k": "arg", "name": "b", "type": "opt_base", "default": None}]}})
    if "link" in spec_feats:
        args.append({"k": "class", "cls": "Model", "name": "model"})
        args.append({"k": "link", "src": "a", "dst": "model.width", "fn": "double"})
    if "pos" in spec_feats:
        args.append({"k": "arg", "name": "pos", "type": "str", "positional": True})
    if "sub" in spec_feats:
        fit = {"opts": {"exit_on_error": eoe}, "args": [{"k": "cfg"}, {"k": "arg", "name": "lr", "type": "float", "default": 0.1}, {"k": "arg", "name": "model", "type": "opt_model", "default": None}]}
        tst = {"opts": {"exit_on_error": eoe}, "args": [{"k": "arg", "name": "k", "type": "int", "default": 1}, {"k": "arg", "name": "name", "type": "str", "positional": True}]}
        args.append({"k": "subcommands", "required": rng.random() < 0.6, "cmds": {"fit": fit, "test": tst}})
    opts = {"exit_on_error": eoe, "default_env": rng.random() < 0.2}
    if rng.random() < 0.2:
        opts["default_config_files"] = [rng.choice(["$W/run/good.yaml", "$W/run/fault.yaml", "$W/run/*.yaml", "$W/run/dir.yaml", "~/h.yaml"])]
    c = rng.random()
    if c < 0.1:
        opts["parser_mode"] = "json"
    elif c < 0.16:
        opts["parser_mode"] = "omegaconf"
    spec = {"opts": opts, "args": args, "feats": feats, "spec_feats": sorted(spec_feats)}
    fk1, fk2 = rng.choice(CONTENT_FAULTS), rng.choice(CONTENT_FAULTS)
    files = {
        "run/good.yaml": json.dumps(good_doc(rng, [f for f in feats if not F[f].get("path")])),
        "run/fault.yaml": make_content(rng, fk1, feats),
        "run/fault2.yaml": make_content(rng, fk2, feats),
        "run/inner.yaml": json.dumps({"q": 5}),
        "run/innerbad.yaml": rng.choice(['{"q": "x"}', '{"p": "missing.txt"}', '{"b": {"class_path": "os.path"}}', "[1", '{"zz": 1}', "q: &a [*a]\n", "q: 1\x00\n"]),
        "run/noperm.yaml": {"text": "a: 1\n", "mode": 0o000},
        "run/thru": "x",
        "run/list.txt": rng.choice(["good.yaml\n", "good.yaml\nmissing.yaml\n", "", "\x00\n", "good.yaml\n\n"]),
        "home/h.yaml": "a: 3\n" if "a" in feats else "{}\n",
    }
    w = {"dirs": ["home", "run", "run/dir.yaml"], "files": files, "fifos": ["run/fifo.pipe", "run/fifogood.pipe"], "fifo_content": {"run/fifogood.pipe": files["run/good.yaml"]}, "fifo_one_shot": True, "symlinks": {"run/dangling.yaml": "nothing"}, "cwd": "run", "env": {}}
    ops = []
    for _ in range(rng.randint(1, 4)):
        m = rng.choice(METHODS)
        op = {"kind": m}
        if m == "args":
            op["argv"] = gen_argv(rng, feats, all_feats, spec_feats)
            if rng.random() < 0.15:
                op["osenv"] = {k: v for k, v in gen_env(rng, feats, spec_feats).items() if "\x00" not in v}
                op["env_flag"] = True
        elif m == "object":
            op["obj"] = gen_obj(rng, feats, spec_feats)
        elif m == "string":
            c = rng.random()
            op["text"] = json.dumps(gen_obj(rng, feats, spec_feats), default=str) if c < 0.5 else make_content(rng, rng.choice([k for k in CONTENT_FAULTS if k not in ("flip", "nonutf8", "binary")]), feats).get("text", "") if c < 0.85 else rng.choice(BADV)
        elif m == "env":
            op["env"] = gen_env(rng, feats, spec_feats)
        else:
            op["path"] = rng.choice(PATH_STATES + ["fault.yaml", "fault2.yaml", "fault.yaml"])
        if rng.random() < 0.08:
            op["stdout"] = rng.choice([{"none": True}, {"closed": True}])
        if rng.random() < 0.12 or (m == "path" and op.get("path") == "-") or "-" in op.get("argv", []):
            op["stdin"] = rng.choice([{"closed": True}, {"none": True}, "", "a: 1\n", "[1", "\x00"])
        ops.append(op)
    sc = {"parser": spec, "world": w, "ops": ops, "faults": [], "content_faults": [fk1, fk2], "tier": tier}
    sc["want_faults"] = rng.random() < 0.45
    # process-wide setting: reading configs from URLs / fsspec enabled (possibly enabled twice, or one after the
    # other) -- local paths, all this property's inputs name, have to behave exactly the same
    sc["read_mode"] = rng.choice(READ_MODES) if rng.random() < 0.08 else None
    return sc


def place_faults(sc, rng, golden):
    if not golden:
        return
    cands = [(int(i), j, k) for i, kinds in golden.items() for j, k in enumerate(kinds)]
    if not cands:
        return
    for _ in range(rng.choice([1, 1, 1, 2])):
        i, j, kind = rng.choice(cands)
        if kind.startswith("cb:"):
            ft = {"type": "raise", "cls": rng.choice(["ValueError", "TypeError", "RuntimeError", "KeyError", "OSError", "SimAbort"])}
        elif rng.random() < 0.3 and kind.startswith(("os.", "open")) and kind != "os.getcwd":
            ft = {"type": "adversary", "action": rng.choice(["delete", "chmod0", "mkdir", "truncate"])}
        elif kind in ("open", "io.read", "io.close", "os.stat", "os.getcwd", "os.chdir", "glob"):
            ft = {"type": "oserror", "errno": rng.choice(["EACCES", "ENOENT", "EIO", "EMFILE", "EISDIR"])}
        else:
            ft = {"type": "adversary", "action": rng.choice(["delete", "chmod0", "mkdir", "truncate"])}
        sc["faults"].append({"op": i, "site": "*", "k": j + 1, "fault": ft})


# ---------------------------------------------------------------------------------------------------


class Unrep:
    pass


def realise(v):
    from jsonargparse import Namespace

    if isinstance(v, dict):
        if "__special__" in v:
            s = v["__special__"]
            if s == "tuple":
                return (1, [2])
            if s == "set":
                return {1, 2}
            if s == "object":
                return Unrep()
            if s == "nonstr-keys":
                return {1: 2, (3, 4): 5}
            if s == "namespace":
                return Namespace(x=1)
            if s == "bytes":
                return b"\xff"
            if s == "nan":
                return float("nan")
            if s == "cyclic":
                a = []
                a.append(a)
                return a
        return {k: realise(x) for k, x in v.items()}
    if isinstance(v, list):
        return [realise(x) for x in v]
    return v


def do_op(p, op):
    k = op["kind"]
    if k == "args":
        kw = {"env": True} if op.get("env_flag") else {}
        if op.get("ns") is not None:
            from jsonargparse import Namespace

            kw["namespace"] = Namespace(realise(op["ns"]))
        return p.parse_args(list(op["argv"]), **kw)
    if k == "object":
        return p.parse_object(realise(op["obj"]))
    if k == "string":
        return p.parse_string(op["text"])
    if k == "env":
        return p.parse_env(dict(op["env"]))
    if k == "path":
        return p.parse_path(op["path"])
    raise ValueError(k)


def _is_json(v):
    try:
        json.loads(v)
        return True
    except (ValueError, RecursionError):
        return False


def _has_cyclic(op, sc):
    txt = json.dumps(op)
    if any(c in txt for c in ("&a", "&x", "&r", "&b", "cyclic")):
        return True
    for name in ("fault.yaml", "fault2.yaml", "innerbad.yaml"):
        if name in txt or "*.yaml" in json.dumps(sc["parser"]["opts"]):
            f = sc["world"]["files"].get("run/" + name)
            t = f.get("text", "") if isinstance(f, dict) else (f or "")
            if "&" in t and "*" in t:
                return True
    return False


def _has_deep(op, sc, run=None):
    """the operation's input (or a file it can reach) nests a few hundred levels deep"""
    run = run or DEEP_RUN
    txt = json.dumps(op)
    if run in txt:
        return True
    for name in ("fault.yaml", "fault2.yaml"):
        if name in txt or "*.yaml" in json.dumps(sc["parser"]["opts"]) or name in json.dumps(sc["parser"]["opts"]):
            f = sc["world"]["files"].get("run/" + name)
            t = f.get("text", "") if isinstance(f, dict) else (f or "")
            if run in t:
                return True
    return False


READ_MODES = [["urls"], ["urls", "urls"], ["fsspec"], ["fsspec", "fsspec"], ["urls", "fsspec"], ["fsspec", "urls"], ["urls", "off"], ["urls", "urls", "off"]]


def apply_read_mode(calls):
    from jsonargparse import set_config_read_mode

    for c in calls:
        if c == "urls":
            set_config_read_mode(urls_enabled=True)
        elif c == "fsspec":
            set_config_read_mode(fsspec_enabled=True)
        else:
            set_config_read_mode(urls_enabled=False, fsspec_enabled=False)


def execute(sc, ctx):
    sim, root = ctx.sim, ctx.root
    sim.begin_op(-1, "build")
    if sc.get("read_mode"):
        orm = run_op(lambda: apply_read_mode(sc["read_mode"]))
        sim.probe("url-or-fsspec-read-mode")
        ctx.notes["read_mode"] = [sc["read_mode"], orm.brief()]
    ob = run_op(lambda: zoo.build(sc["parser"]))
    if ob.kind != "ret":
        ctx.notes["build"] = ob.brief()
        ctx.record("build", ob.brief())
        return
    eoe = sc["parser"]["opts"]["exit_on_error"]
    for k in sc.get("content_faults", []):
        sim.probe("cfg-content-fault")
    feats_used = set()
    for i, op in enumerate(sc["ops"]):
        kind = op["kind"]
        cwd0 = os.getcwd()
        env0 = dict(os.environ)
        if op.get("osenv"):
            os.environ.update(op["osenv"])
        # a fresh parser per operation: this property quantifies over inputs, what an earlier call leaves
        # behind on a parser is C09's business
        p = zoo.build(sc["parser"])
        sim.begin_op(i, kind)
        nf = len(sim.fired)
        o = run_op(lambda: do_op(p, op), stdin=op.get("stdin"), stdout=op.get("stdout"))
        os.environ.clear()
        os.environ.update(env0)
        fired = sim.fired[nf:]
        ftypes = [f[3] for f in fired]
        relaxed = False
        for f, plan in ((f, pl) for f in fired for pl in sim.faults if pl["_done"]):
            t = plan["fault"]["type"]
            if t in ("oserror", "adversary", "torn") or (t == "raise" and plan["fault"]["cls"] not in ("ValueError", "TypeError")):
                relaxed = True
        if fired:
            sim.probe("fault-fired")
            ctx.nontrivial = True
        if isinstance(op.get("stdin"), dict):
            sim.probe("stdin-closed")
        if op.get("stdout"):
            sim.probe("stdout-absent")
        txt = json.dumps(op)
        if any(s in txt for s in ("missing.yaml", "dir.yaml", "fifo.pipe", "dangling.yaml", "thru/x", "noperm.yaml")):
            sim.probe("cfg-path-state-fault")
        if any(c in txt for c in BADCLASSP[:5]):
            sim.probe("subclass-bad-import")
        if "innerbad.yaml" in txt or ("inner" in txt and "fault.yaml" in txt):
            sim.probe("nested-subconfig-fault")
        if kind == "env" and any(k in ("APP_N", "APP_L", "APP_LL", "APP_LANY", "APP_LB", "APP_PL") and v.lstrip().startswith(("[", "{")) and not _is_json(v) for k, v in op["env"].items()):
            sim.probe("env-list-broken-json")
        cyc = _has_cyclic(op, sc)
        if cyc:
            sim.probe("cyclic-alias")
        # (omegaconf's own tree walk gives up far below the interpreter's limit)
        third_party_walk = sc["parser"]["opts"].get("parser_mode") == "omegaconf" or bool({"js", "jn"} & set(sc["parser"].get("feats", [])))  # ... and so do jsonschema's validator and jsonnet
        deep = _has_deep(op, sc, MID_RUN if third_party_walk else DEEP_RUN)
        if deep:
            sim.probe("deep-nesting")
        ctx.record(kind, o.brief() + ("!" if fired else ""))
        ok = False
        why = ""
        if op.get("stdout") and any(s in txt for s in ("print_config", "help", "-h", "print_shtab", "version")):
            # something has to be PRINTED and there is no standard output: whatever happens is the environment's
            # doing - no verdict.  (A plain parse failure needs no stdout and is judged as usual.)
            ok = True
            sim.probe("no-stdout-for-printing")
        elif o.kind == "ret":
            ok = True
        elif o.kind == "AE":
            ok = not eoe or False
            why = "ArgumentError raised although exit_on_error=True: " + o.text[:200]
            sim.probe("rejected-AE")
            ctx.nontrivial = True
        elif o.kind == "exit":
            if o.code == 0 and (o.stdout or o.stderr):
                ok = True
                sim.probe("exit0-printed")
            elif o.code == 2 and eoe and "error:" in o.stderr:
                ok = True
                sim.probe("rejected-exit2")
                ctx.nontrivial = True
            else:
                why = "exit status %r with exit_on_error=%s (stderr %r)" % (o.code, eoe, o.stderr[-120:])
        else:
            why = "%s escaped: %s" % (type(o.exc).__name__, o.text[:300])
            if type(o.exc).__name__ == "WouldBlockForever" and sum(txt.count(n) for n in ("fifo.pipe", "fifogood.pipe", "fifo.yaml", "fifogood.yaml")) > 1:
                # the operation itself names the one-shot FIFO more than once (two options pointing at it): the
                # second use blocks in reality too, that is the caller's doing - no verdict
                ok = True
                sim.probe("fifo-multi-use")
            elif relaxed and o.injected:
                ok = True
                sim.probe("injected-propagated")
            elif relaxed and "adversary" in ftypes and isinstance(o.exc, OSError):
                # the file system changed under the operation between a check and a use: the OS error of the
                # use is the environment's doing, exactly like an injected one
                ok = True
                sim.probe("adversary-consequence-propagated")
        if not ok:
            exc = type(o.exc).__name__ if o.exc is not None else o.kind
            if o.kind == "exit":
                exc = "SystemExit(%r)" % (o.code,)
            frames = o.frames or (harness.jsonargparse_frames(o.exc) if o.exc is not None else [])
            if exc == "WouldBlockForever":
                core = [f for f in frames if f.startswith(("_core:", "_actions:", "_typehints:"))]
                frame = core[-1] if core else "?"
            elif exc == "HangDetected":
                core = [f for f in frames if f.startswith(("_core:", "_actions:", "_typehints:"))]
                frame = "cyclic-alias" if cyc else (core[-1] if core else "?")
            elif exc == "RecursionError":
                # named by the members of the loop: the frames that occur many times in the traceback (where the
                # stack happened to overflow - a leaf frame - occurs once and does not enter the name)
                frame = "deep-nesting" if deep else "cyclic-alias" if cyc else "loop:" + "+".join(sorted(f for f in set(frames) if frames.count(f) >= 5 and not f.startswith("_deprecated:")))[:200]
            else:
                frame = frames[-1] if frames else "?"
            ctx.violation(
                "failure-channel",
                {"exc": exc, "frame": frame, "entry": kind, "mode": "relaxed" if relaxed else "strict"},
                "%s %s -> %s\nop: %s\nfaults fired: %s\nframes: %s" % (kind, "(fault injected)" if fired else "", why, txt[:600], fired, " > ".join(frames[-6:])),
            )
        hung = o.kind == "exc" and type(o.exc).__name__ == "HangDetected"
        with rt.suspended():
            try:
                cwd1 = os.getcwd()
            except OSError:
                cwd1 = "<gone>"
            if cwd1 != cwd0:
                ctx.violation("cwd", {"exc": "cwd-changed", "entry": kind, "mode": "relaxed" if relaxed else "strict", "outcome": o.kind}, "cwd %s -> %s after %s (%s)" % (cwd0, cwd1, kind, o.brief()))
                os.chdir(cwd0)
        if hung:
            break
    ctx.notes["feats"] = sorted(set(sc["parser"]["spec_feats"]) & {"cfg", "inner", "sub", "pos", "link"})
