import importlib

IDS = ["C03", "C04", "C08", "C09", "C18", "C19"]


def get_prop(pid):
    return importlib.import_module("dsim.props." + pid.lower())


def all_props():
    out = {}
    for p in IDS:
        try:
            out[p] = get_prop(p)
        except ModuleNotFoundError as ex:
            if "dsim.props" not in str(ex):
                raise
    return out
