import os, shutil, sys
ROOT='/tmp/x19b/w'
shutil.rmtree(ROOT, ignore_errors=True); os.makedirs(ROOT); os.chdir(ROOT)
from typing import List, Optional
from dataclasses import dataclass
from jsonargparse import ArgumentParser, ActionConfigFile, ActionParser, ArgumentError, Namespace
from jsonargparse.typing import Path_fr, Path_fc, Path_dw
class Base:
    def __init__(self, data: Path_fr, n: int = 0): self.data=data
os.makedirs('A/B/C'); os.makedirs('run')
open('A/main.yaml','w').write('p: pa.txt\ninner: B/inner.yaml\nobj: B/C/obj.yaml\n')
open('A/pa.txt','w').write('x')
open('A/B/inner.yaml','w').write('q: qb.txt\n')
open('A/B/qb.txt','w').write('x')
open('A/B/C/obj.yaml','w').write('class_path: __main__.Base\ninit_args:\n  data: dc.txt\n')
open('A/B/C/dc.txt','w').write('x')
open('A/B/list.txt','w').write('l1.txt\nC/dc.txt\n')
open('A/B/l1.txt','w').write('x')
def mk():
    inner = ArgumentParser(exit_on_error=False)
    inner.add_argument('--q', type=Path_fr)
    p = ArgumentParser(exit_on_error=False)
    p.add_argument('--cfg', action=ActionConfigFile)
    p.add_argument('--p', type=Path_fr)
    p.add_argument('--inner', action=ActionParser(parser=inner))
    p.add_subclass_arguments(Base, 'obj')
    p.add_argument('--lst', type=List[Path_fr], enable_path=True)
    return p
os.chdir('run')
p = mk()
cfg = p.parse_args(['--cfg', '../A/main.yaml'])
def show(c, pre=''):
    for k,v in c.items():
        if hasattr(v,'absolute'): print(pre+k, repr(v.relative), v.absolute, v.cwd)
        elif isinstance(v, list):
            for i,e in enumerate(v):
                if hasattr(e,'absolute'): print(pre+k, i, repr(e.relative), e.absolute)
                else: print(pre+k, i, e)
        else: print(pre+k, v)
show(cfg)
print('cwd after', os.getcwd())
# failure deep
open('../A/B/C/obj.yaml','w').write('class_path: __main__.Base\ninit_args:\n  data: MISSING.txt\n')
try: p.parse_args(['--cfg', '../A/main.yaml'])
except ArgumentError as e: print('AE', str(e)[:100].replace('\n',' | '))
print('cwd after failure', os.getcwd())
# dump / save relative
