#!/bin/bash
# usage: confirm_seeded.sh <worktree with the change applied> <property> [runs]
# confirms: suite == baseline with the change; demo FAILs with / PASSes without; then runs the registered quick check on it
wt=$1; prop=$2; runs=${3:-}
cd $wt || exit 2
git diff -- jsonargparse > /tmp/confirm_patch.diff
echo "== changed lines: $(grep -c '^[+-][^+-]' /tmp/confirm_patch.diff)"
/verif/tools/runsuite.sh $wt | head -3
echo "== demo with change:"; (cd $wt && timeout 120 /venv/bin/python demo.py 2>&1 | tail -2; echo "exit ${PIPESTATUS[0]}")
git stash -q -- jsonargparse
echo "== demo without change:"; (cd $wt && timeout 120 /venv/bin/python demo.py 2>&1 | tail -2; echo "exit ${PIPESTATUS[0]}")
git stash pop -q
echo "== dsim check $prop:"
cd /verif && VERIF_REPO=$wt timeout 1200 /venv/bin/python -m dsim check $prop --tier quick --no-evidence ${runs:+--runs $runs} 2>&1 | grep "^VIOLATION\|^  fingerprint\|held on\|HARNESS\|KNOWN" | cut -c1-420 | head -8
rm -f /verif/replays/*.json
