#!/bin/bash
# multi-seed soak of all six quick checks (run before committing a new oracle clause or generator feature; scratch output under /tmp)
cd /verif
for s in ${@:-9 10 11 12 13 14 15 16 1 2 3}; do for p in C19 C18 C09 C08 C04 C03; do
  out=$(VERIF_SEED=$s VERIF_JOBS=16 timeout 1500 /venv/bin/python -m dsim check $p --tier quick --no-evidence 2>&1); rc=$?
  echo "seed $s $p exit $rc; $(echo "$out" | grep -c '^KNOWN') known; $(echo "$out" | tail -2 | head -1 | cut -c1-100)"
  [ $rc -ne 0 ] && { echo "$out" | grep "^VIOLATION\|^  fingerprint\|HARNESS" | cut -c1-700; mkdir -p /tmp/seedreplays; cp /verif/replays/*.json /tmp/seedreplays/ 2>/dev/null; }
done; done
echo "=== done $(date +%T)"
