"""Driver: worker pool, seeded batches, corpus, determinism sample, minimisation, known findings,
replay files and evidence."""
import collections
import copy
import fnmatch
import hashlib
import json
import os
import queue
import shutil
import subprocess
import sys
import threading
import time

VERIF = os.path.dirname(os.path.dirname(os.path.abspath(__file__)))
HASHSEEDS = 4


def seed_for(base, prop, i):
    h = hashlib.sha256(("%d:%s:%d" % (base, prop, i)).encode()).digest()
    return int.from_bytes(h[:7], "big")


def fp_key(fp):
    return json.dumps(fp, sort_keys=True)


def fp_hash(fp):
    return hashlib.sha1(fp_key(fp).encode()).hexdigest()[:12]


class Pool:
    def __init__(self, jobs=None, repo=None, hashseeds=None):
        jobs = jobs or int(os.environ.get("VERIF_JOBS", "0")) or os.cpu_count() or 4
        self.repo = repo or os.environ.get("VERIF_REPO", "/repo")
        self.base = "/tmp/dsim-%07d" % os.getpid()
        shutil.rmtree(self.base, ignore_errors=True)
        os.makedirs(self.base)
        self.groups = hashseeds if hashseeds is not None else list(range(HASHSEEDS))
        n = max(len(self.groups), jobs)
        self.queues = {g: queue.Queue() for g in self.groups}
        self.workers = []
        self.results = {}
        self.lock = threading.Lock()
        self.errlog = open(os.path.join(self.base, "stderr.log"), "wb")
        for w in range(n):
            g = self.groups[w % len(self.groups)]
            t = threading.Thread(target=self._serve, args=(w, g), daemon=True)
            t.start()
            self.workers.append(t)
        self.procs = {}

    def _spawn(self, w, g):
        env = dict(os.environ)
        for k in list(env):
            if k.startswith("JSONARGPARSE_") or k.startswith("_ARGCOMPLETE") or k == "COMP_TYPE":
                del env[k]
        env.update(
            PYTHONHASHSEED=str(g),
            COLUMNS="100",
            LINES="40",
            LC_ALL="C.UTF-8",
            TZ="UTC",
            VERIF_REPO=self.repo,
            PYTHONDONTWRITEBYTECODE="1",
            PYTHONPATH=self.repo + os.pathsep + VERIF,
        )
        return subprocess.Popen(
            [sys.executable, "-m", "dsim", "worker"],
            stdin=subprocess.PIPE,
            stdout=subprocess.PIPE,
            stderr=self.errlog,
            env=env,
            cwd=VERIF,
            text=True,
            bufsize=1,
        )

    def _serve(self, w, g):
        proc = None
        q = self.queues[g]
        root = os.path.join(self.base, "w%02d" % w)
        while True:
            item = q.get()
            if item is None:
                break
            batch, idx, req = item
            req = dict(req, root=root, idx=idx)
            resp = None
            for attempt in range(2):
                try:
                    if proc is None or proc.poll() is not None:
                        proc = self._spawn(w, g)
                    proc.stdin.write(json.dumps(req) + "\n")
                    proc.stdin.flush()
                    line = proc.stdout.readline()
                    if not line:
                        raise EOFError("worker died")
                    resp = json.loads(line)
                    break
                except (EOFError, OSError, ValueError) as ex:
                    resp = {"status": "worker-died", "error": repr(ex)}
                    try:
                        proc.kill()
                    except Exception:
                        pass
                    proc = None
            with self.lock:
                batch["res"][idx] = resp
                batch["left"] -= 1
                if batch["left"] == 0:
                    batch["done"].set()
        if proc is not None:
            try:
                proc.stdin.write('{"cmd":"quit"}\n')
                proc.stdin.flush()
                proc.wait(timeout=5)
            except Exception:
                proc.kill()

    def run(self, reqs):
        """reqs: list of dicts with 'prop' and ('seed' | 'scenario'), optional 'hashseed'.  Returns responses in order."""
        if not reqs:
            return []
        batch = {"res": {}, "left": len(reqs), "done": threading.Event()}
        for i, r in enumerate(reqs):
            g = r.get("hashseed")
            if g is None:
                g = r["seed"] % HASHSEEDS if "seed" in r else r["scenario"].get("seed", 0) % HASHSEEDS
            if g not in self.queues:
                g = self.groups[g % len(self.groups)]
            self.queues[g].put((batch, i, {k: v for k, v in r.items() if k != "hashseed"}))
        batch["done"].wait()
        return [batch["res"][i] for i in range(len(reqs))]

    def close(self):
        for g, q in self.queues.items():
            for _ in self.workers:
                q.put(None)
        for t in self.workers:
            t.join(timeout=10)
        self.errlog.close()
        from .world import _force_rmtree

        _force_rmtree(self.base)


# ---------------------------------------------------------------------------------------------------
# known findings


def load_known():
    p = os.path.join(VERIF, "known_findings.json")
    if not os.path.exists(p) or os.environ.get("DSIM_IGNORE_KNOWN"):  # the latter only to (re)generate corpus replays
        return {"known": [], "fixed": []}
    return json.load(open(p))


def match_known(known, prop, fp):
    for e in known.get("known", []):
        if e["property"] != prop:
            continue
        ok = True
        for k, pat in e["match"].items():
            v = fp.get(k)
            if isinstance(pat, list):
                if v not in pat:
                    ok = False
            elif isinstance(pat, str) and isinstance(v, str):
                if not fnmatch.fnmatchcase(v, pat):
                    ok = False
            elif v != pat:
                ok = False
            if not ok:
                break
        if ok:
            return e
    return None


# ---------------------------------------------------------------------------------------------------
# minimisation: delta debugging on the scenario (data)


def _paths(node, path=()):
    """yield (path, container) for every list / dict that may lose an element"""
    if isinstance(node, dict):
        yield path, node
        for k, v in node.items():
            yield from _paths(v, path + (k,))
    elif isinstance(node, list):
        yield path, node
        for i, v in enumerate(node):
            yield from _paths(v, path + (i,))


def _get(node, path):
    for p in path:
        node = node[p]
    return node


def _candidates(sc, prop_mod):
    noshrink = getattr(prop_mod, "NO_SHRINK", ())
    out = []
    for path, cont in _paths(sc):
        spath = "/".join(str(p) if not isinstance(p, int) else "*" for p in path)
        if any(fnmatch.fnmatchcase(spath, pat) for pat in noshrink):
            continue
        if isinstance(cont, list):
            n = len(cont)
            if n == 0:
                continue
            if n > 3:  # halves first
                out.append((path, ("slice", 0, n // 2)))
                out.append((path, ("slice", n // 2, n)))
            for i in range(n - 1, -1, -1):
                out.append((path, ("del", i)))
        elif isinstance(cont, dict) and any(
            fnmatch.fnmatchcase(spath, pat) for pat in getattr(prop_mod, "SHRINK_DICTS", ("world/files", "world/env", "world/symlinks", "world/dirmodes"))
        ):
            for k in sorted(cont, reverse=True):
                out.append((path, ("delkey", k)))
    # property-specific simplifications (e.g. replace a value by a simpler one)
    if hasattr(prop_mod, "simplify"):
        for c in prop_mod.simplify(sc):
            out.append((None, ("replace", c)))
    return out


def _apply(sc, cand):
    path, act = cand
    if act[0] == "replace":
        return act[1]
    sc2 = copy.deepcopy(sc)
    cont = _get(sc2, path)
    if act[0] == "del":
        del cont[act[1]]
    elif act[0] == "slice":
        del cont[act[1] : act[2]]
    elif act[0] == "delkey":
        del cont[act[1]]
    return sc2


def size_of(sc):
    return len(json.dumps(sc))


def minimise(pool, prop_id, prop_mod, sc, fp, budget=400, hashseed=None, log=None):
    key = fp_key(fp)
    used = 0
    cur = sc
    rounds = 0
    while used < budget:
        rounds += 1
        cands = _candidates(cur, prop_mod)
        if not cands:
            break
        progressed = False
        pos = 0
        while pos < len(cands) and used < budget:
            chunk = cands[pos : pos + 32]
            pos += len(chunk)
            scs = []
            for c in chunk:
                try:
                    scs.append(_apply(cur, c))
                except Exception:
                    scs.append(None)
            reqs = [{"prop": prop_id, "scenario": s, "hashseed": hashseed, "tier": sc.get("tier", "quick")} for s in scs if s is not None]
            used += len(reqs)
            resps = pool.run(reqs)
            good = []
            j = 0
            for s in scs:
                if s is None:
                    continue
                r = resps[j]
                j += 1
                if r.get("status") == "ok" and any(fp_key(v["fingerprint"]) == key for v in r["result"]["violations"]):
                    good.append(s)
            if good:
                best = min(good, key=size_of)
                if size_of(best) < size_of(cur):
                    cur = best
                    progressed = True
                    break
        if not progressed:
            break
    if log:
        log("minimised %d -> %d bytes in %d executions" % (size_of(sc), size_of(cur), used))
    return cur, used


# ---------------------------------------------------------------------------------------------------
# check


def write_replay(prop_id, fp, message, scenario, digest, orig_size, hashseed, tier, directory=None):
    d = directory or os.path.join(VERIF, "replays")
    os.makedirs(d, exist_ok=True)
    path = os.path.join(d, "%s-%s.json" % (prop_id, fp_hash(fp)))
    with open(path, "w") as f:
        json.dump(
            {
                "property": prop_id,
                "seed": scenario.get("seed"),
                "hashseed": hashseed,
                "tier": tier,
                "fingerprint": fp,
                "message": message,
                "digest": digest,
                "original_scenario_bytes": orig_size,
                "scenario": scenario,
            },
            f,
            indent=1,
            sort_keys=True,
        )
        f.write("\n")
    return path


def corpus_entries(prop_id):
    d = os.path.join(VERIF, "replays", "corpus", prop_id)
    if not os.path.isdir(d):
        return []
    out = []
    for n in sorted(os.listdir(d)):
        if n.endswith(".json"):
            e = json.load(open(os.path.join(d, n)))
            e["_path"] = os.path.join(d, n)
            out.append(e)
    return out


def check(prop_id, tier="quick", base_seed=0, runs=None, jobs=None, out=print, write_evidence=True, keep_going=False):
    from .props import get_prop

    t0 = time.time()
    prop = get_prop(prop_id)
    known = load_known()
    budget = runs or prop.RUNS[tier]
    pool = Pool(jobs)
    harness_errors = []
    status_count = collections.Counter()
    sigs = collections.Counter()
    nontrivial_sigs = set()
    traces = set()
    fired = collections.Counter()
    fired_sites = collections.Counter()
    probes = collections.Counter()
    hits = set()
    outcomes = collections.Counter()
    opkinds = collections.Counter()
    seam_calls = ops = sub_runs = 0
    samples = []
    viols = {}  # fp_key -> dict(fp, first (scenario, message, digest, hashseed), count)
    known_met = {}
    evaluations = 0
    digests = {}
    hashseeds_used = collections.Counter()
    fault_free = 0
    try:
        out("dsim check %s tier=%s VERIF_SEED=%d runs=%d jobs=%d repo=%s" % (prop_id, tier, base_seed, budget, len(pool.workers), pool.repo))

        def account(resp, scenario_hint=None, hashseed=None, from_corpus=False):
            nonlocal seam_calls, ops, sub_runs, evaluations, fault_free
            st = resp.get("status")
            status_count[st] += 1
            if st in ("hang",):
                # a run that exceeded its CPU budget: a termination violation candidate, handled by caller
                return None
            if st != "ok":
                harness_errors.append((st, resp.get("error") or resp.get("signal") or resp.get("exit")))
                return None
            r = resp["result"]
            evaluations += 1
            s = r["stats"]
            sigs[r["sig"]] += 1
            if r["nontrivial"]:
                nontrivial_sigs.add(r["sig"])
            traces.add(r["trace"])
            seam_calls += s["seam_calls"]
            ops += s["ops"]
            sub_runs += s["sub_runs"]
            if not s["fired"]:
                fault_free += 1
            for f in s["fired"]:
                fired[f[3]] += 1
                fired_sites[f[3] + "@" + f[1]] += 1
            for k, v in s["probes"].items():
                probes[k] += v
            hits.update(s["hits"])
            for o in s["outcomes"]:
                outcomes[o] += 1
            for o in s["op_kinds"]:
                opkinds[o] += 1
            for v in r["violations"]:
                k = fp_key(v["fingerprint"])
                e = viols.get(k)
                if e is None:
                    viols[k] = e = {"fp": v["fingerprint"], "count": 0, "scenario": r["scenario"], "message": v["message"], "digest": r["digest"], "hashseed": hashseed, "corpus": from_corpus}
                e["count"] += 1
            return r

        # 1. regression corpus ------------------------------------------------------------------
        corpus = corpus_entries(prop_id)
        corpus_failed = []
        if corpus:
            resps = pool.run([{"prop": prop_id, "scenario": e["scenario"], "hashseed": e.get("hashseed", 0), "tier": tier} for e in corpus])
            for e, resp in zip(corpus, resps):
                r = account(resp, hashseed=e.get("hashseed", 0), from_corpus=True)
                reproduced = r is not None and any(fp_key(v["fingerprint"]) == fp_key(e["fingerprint"]) for v in r["violations"])
                if e["status"] == "fixed" and reproduced:
                    corpus_failed.append(e)
            out("corpus: %d entries re-executed, %d fixed entries reproduce again" % (len(corpus), len(corpus_failed)))

        # 2. seeded search -------------------------------------------------------------------------
        chunk = 2000
        i = 0
        hangs = []
        while i < budget:
            n = min(chunk, budget - i)
            reqs = []
            for j in range(i, i + n):
                sd = seed_for(base_seed, prop_id, j)
                reqs.append({"prop": prop_id, "seed": sd, "tier": tier})
            resps = pool.run(reqs)
            resample = []
            for req, resp in zip(reqs, resps):
                hs = req["seed"] % HASHSEEDS
                hashseeds_used[hs] += 1
                if resp.get("status") == "hang":
                    hangs.append(req)
                r = account(resp, hashseed=hs)
                if r is None:
                    continue
                digests[req["seed"]] = r["digest"]
                if len(samples) < 3 and r["nontrivial"] and (not samples or r["sig"] not in [x["sig"] for x in samples]):
                    samples.append({"seed": req["seed"], "sig": r["sig"], "scenario": r["scenario"], "outcomes": r["stats"]["outcomes"], "faults_fired": r["stats"]["fired"]})
                if req["seed"] % 50 == 0:
                    resample.append((req["seed"], hs, r["scenario"], r["digest"]))
            # 2 % determinism sample: re-execute the recorded scenario, digests must agree
            if resample:
                rr = pool.run([{"prop": prop_id, "scenario": sc, "hashseed": hs, "tier": tier} for _, hs, sc, _ in resample])
                for (sd, hs, sc, dg), resp in zip(resample, rr):
                    status_count["resampled"] += 1
                    if resp.get("status") != "ok" or resp["result"]["digest"] != dg:
                        harness_errors.append(("digest-mismatch", "seed %d" % sd))
            i += n
            out("  %d/%d runs, %d distinct signatures, %d fingerprint(s), %.0fs" % (i, budget, len(sigs), len(viols), time.time() - t0))
            if time.time() - t0 > prop.WALL[tier]:
                out("  wall budget of the tier reached, stopping the batch at %d runs" % i)
                break

        # hangs must reproduce on an immediate re-run to count
        for req in hangs[:5]:
            resp = pool.run([req])[0]
            if resp.get("status") == "hang":
                fp = {"rule": "hang", "seed": req["seed"]}
                viols[fp_key(fp)] = {"fp": fp, "count": 1, "scenario": {"seed": req["seed"], "property": prop_id, "hang": True}, "message": "run exceeded its CPU budget twice (non-termination)", "digest": None, "hashseed": req["seed"] % HASHSEEDS, "corpus": False}
            else:
                harness_errors.append(("hang-not-reproduced", req["seed"]))

        # 3. classify -----------------------------------------------------------------------------
        new = []
        for k, e in viols.items():
            m = match_known(known, prop_id, e["fp"])
            if m is not None:
                known_met.setdefault(m["id"], [m, 0])
                known_met[m["id"]][1] += e["count"]
            else:
                new.append(e)
        for m, n in known_met.values():
            out("KNOWN-FINDING: property=%s %s [%s; met in %d run(s)]" % (prop_id, m["what"], m["id"], n))
        replay_paths = []
        for e in corpus_failed:
            out("VIOLATION property=%s replay=%s" % (prop_id, e["_path"]))
            replay_paths.append(e["_path"])
        new.sort(key=lambda e: (-e["count"], fp_key(e["fp"])))
        if len(new) > 3:
            out("%d unlisted fingerprints:" % len(new))
            for e in new:
                out("   %5d  %s" % (e["count"], fp_key(e["fp"])))
                if os.environ.get("DSIM_VERBOSE"):
                    out("          " + e["message"][:700].replace("\n", "\n          "))
        for e in new[: (50 if keep_going else 8)]:
            sc = e["scenario"]
            orig = size_of(sc)
            if not sc.get("hang") and not harness_errors:
                nmin = getattr(check, "_nmin", 0)
                check._nmin = nmin + 1
                sc, _ = minimise(pool, prop_id, prop, sc, e["fp"], budget=400 if nmin < 3 else 60, hashseed=e["hashseed"], log=lambda s: out("  " + s))
                resp = pool.run([{"prop": prop_id, "scenario": sc, "hashseed": e["hashseed"], "tier": tier}])[0]
                if resp.get("status") == "ok":
                    e["digest"] = resp["result"]["digest"]
                    for v in resp["result"]["violations"]:
                        if fp_key(v["fingerprint"]) == fp_key(e["fp"]):
                            e["message"] = v["message"]
            path = write_replay(prop_id, e["fp"], e["message"], sc, e["digest"], orig, e["hashseed"], tier)
            replay_paths.append(path)
            out("VIOLATION property=%s replay=%s" % (prop_id, path))
            out("  fingerprint %s (%d run(s)): %s" % (fp_key(e["fp"]), e["count"], e["message"][:300].replace("\n", " | ")))
        n_viol = len(new) + len(corpus_failed)
    finally:
        pool.close()

    wall = time.time() - t0
    zero_probes = [p for p in getattr(prop, "PROBES", []) if not probes.get(p)]
    for p in zero_probes:
        out("warning: probe %r stayed at 0" % p)
    total_handlers = None
    anchored = {}
    unreached = []
    try:
        from .harness import handler_table

        table = handler_table(os.path.join(os.environ.get("VERIF_REPO", "/repo"), "jsonargparse"))
        total_handlers = len(table)
        anchored_files = getattr(prop, "ANCHOR_FILES", ())
        for name in table.values():
            mod = name.split(":")[0]
            if mod in anchored_files:
                a = anchored.setdefault(mod, [0, 0])
                a[1] += 1
                if name in hits:
                    a[0] += 1
                else:
                    unreached.append(name)
    except Exception:
        pass
    if write_evidence and evaluations:
        ev = {
            "property_id": prop_id,
            "tier": tier,
            "seed": base_seed,
            "level": prop.LEVEL,
            "coverage": {
                "evaluations": evaluations,
                "distinct_nontrivial": len(nontrivial_sigs),
                "rule": prop.RULE,
                "samples": samples or [{"note": "no non-trivial sample recorded"}],
                "distinct_run_signatures": len(sigs),
                "distinct_seam_traces": len(traces),
                "operations_executed": ops,
                "seam_calls": seam_calls,
                "sub_fork_executions": sub_runs,
                "runs_per_hour": int(evaluations / max(wall, 1e-3) * 3600),
                "simulated_time": "none: the code under test has no clock or timer; progress is counted in operations and seam calls",
                "fault_free_runs": fault_free,
                "faults_fired_by_kind": dict(fired),
                "faults_fired_by_kind_and_site": dict(sorted(fired_sites.items(), key=lambda kv: -kv[1])[:40]),
                "outcome_kinds": dict(outcomes),
                "operation_kinds": dict(opkinds),
                "probes": dict(probes),
                "probes_at_zero": zero_probes,
                "handler_reach": {"reached": len(hits), "total": total_handlers, "by_anchored_module": {k: "%d/%d" % tuple(v) for k, v in anchored.items()}, "not_reached_in_anchored_modules": sorted(unreached)},
                "hash_seeds_used": dict(hashseeds_used),
                "determinism_resamples": status_count.get("resampled", 0),
                "corpus_entries": len(corpus),
                "known_findings_met": {k: v[1] for k, v in known_met.items()},
                "real_components": ["jsonargparse (working tree of VERIF_REPO)", "argparse", "PyYAML / json", "kernel file system and cwd inside the scratch world", "os.environ"],
                "stubbed_components": ["os.access / open permission model (simulated unprivileged owner)", "directory listing order", "fault injector", "stdin/stdout/stderr", "terminal size", "all user classes, types and callbacks (dsim/simtypes.py)"],
            },
            "assumptions": prop.ASSUMPTIONS,
            "wall_s": round(wall, 2),
            "violations": n_viol,
        }
        os.makedirs(os.path.join(VERIF, "evidence"), exist_ok=True)
        with open(os.path.join(VERIF, "evidence", prop_id + ".json"), "w") as f:
            json.dump(ev, f, indent=1, sort_keys=True, default=repr)
            f.write("\n")
    out("%s: %d runs in %.1fs (%d/h), %d distinct signatures (%d non-trivial), %d seam traces, handlers reached %d/%s, faults fired %s" % (prop_id, evaluations, wall, evaluations / max(wall, 1e-3) * 3600, len(sigs), len(nontrivial_sigs), len(traces), len(hits), total_handlers, dict(fired)))
    if harness_errors:
        out("HARNESS-ERROR: %d problem(s), first: %r" % (len(harness_errors), harness_errors[0]))
        return 3
    if n_viol:
        return 1
    out("%s held on everything explored" % prop_id)
    return 0


def replay(path, out=print, events=False):
    e = json.load(open(path))
    prop_id = e["property"]
    hs = e.get("hashseed") or 0
    pool = Pool(jobs=1, hashseeds=[hs])
    try:
        if e["scenario"].get("hang"):
            # the run was killed by its CPU limit before it could report a scenario: replay from the seed
            req = {"prop": prop_id, "seed": e["scenario"]["seed"], "hashseed": hs, "tier": e.get("tier", "quick")}
        else:
            req = {"prop": prop_id, "scenario": e["scenario"], "hashseed": hs, "tier": e.get("tier", "quick"), "events": events}
        resp = pool.run([req])[0]
    finally:
        pool.close()
    if resp.get("status") == "hang" and e["fingerprint"].get("rule") == "hang":
        out("VIOLATION property=%s replay=%s" % (prop_id, path))
        return 1
    if resp.get("status") != "ok":
        out("HARNESS-ERROR: replay did not execute: %r" % (resp,))
        return 3
    r = resp["result"]
    if events:
        for ev in r.get("events", []):
            out("  " + json.dumps(ev))
    got = [v for v in r["violations"] if fp_key(v["fingerprint"]) == fp_key(e["fingerprint"])]
    if got:
        out("VIOLATION property=%s replay=%s" % (prop_id, path))
        out("  fingerprint " + fp_key(e["fingerprint"]))
        out("  " + got[0]["message"][:600].replace("\n", "\n  "))
        if e.get("digest") and r["digest"] != e["digest"]:
            out("  note: event-log digest differs from the recorded one (code changed since the replay was written?)")
        return 1
    others = [fp_key(v["fingerprint"]) for v in r["violations"]]
    out("NOT-REPRODUCED property=%s replay=%s (other fingerprints in this run: %s)" % (prop_id, path, others))
    return 0
