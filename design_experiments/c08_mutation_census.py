import os, sys, io, json, random, copy, warnings, contextlib, shutil, argparse
from typing import List, Dict, Optional, Tuple, Set, Any, Union
from dataclasses import dataclass, field
import calendar
from jsonargparse import ArgumentParser, ActionConfigFile, ArgumentError, Namespace, ActionParser, lazy_instance
from jsonargparse.typing import Path_fr
W='/tmp/x8c/w'; shutil.rmtree(W, ignore_errors=True); os.makedirs(W+'/A/B'); os.chdir(W)
open('A/main.yaml','w').write('p: pa.txt\ninner: B/inner.yaml\n'); open('A/pa.txt','w').write('x'); open('A/B/inner.yaml','w').write('q: qb.txt\nv: [1, 2]\n'); open('A/B/qb.txt','w').write('x')
open('A/bad.yaml','w').write('p: pa.txt\ninner: B/innerbad.yaml\n'); open('A/B/innerbad.yaml','w').write('q: missing.txt\n')
@dataclass
class D:
    u: int = 1
    w: List[float] = field(default_factory=lambda: [1, 2])
class Base:
    def __init__(self, n: float = 0, tags: List[float] = [1]): self.n=n; self.tags=tags
class Sub(Base):
    def __init__(self, n: float = 1, child: Optional[Base] = None, opts: Dict[str, float] = {'a': 1}): super().__init__(n); self.child=child
def mk():
    inner=ArgumentParser(exit_on_error=False); inner.add_argument('--q', type=Optional[Path_fr]); inner.add_argument('--v', type=List[float], default=[0])
    p=ArgumentParser(exit_on_error=False, prog='app')
    p.add_argument('--cfg', action=ActionConfigFile)
    p.add_argument('--a', type=float, default=0); p.add_argument('--l', type=List[float], default=[1, 2]); p.add_argument('--ll', type=List[List[float]], default=[[1]])
    p.add_argument('--d', type=Dict[str, float], default={'k': 1}); p.add_argument('--dl', type=Dict[str, List[float]], default={'k': [1]})
    p.add_argument('--t', type=Tuple[List[float], int], default=([1, 2], 3)); p.add_argument('--st', type=Optional[Set[int]], default=None); p.add_argument('--tl', type=List[Tuple[float, float]], default=[(1, 2)])
    p.add_argument('--x', type=Any, default=None); p.add_argument('--n', type=float, nargs='+', default=[1])
    p.add_argument('--p', type=Optional[Path_fr]); p.add_argument('--inner', action=ActionParser(parser=inner))
    p.add_argument('--dd', type=Optional[D], default=None); p.add_class_arguments(D, 'dg')
    p.add_argument('--obj', type=Optional[Base], default=lazy_instance(Sub, n=2)); p.add_argument('--objs', type=List[Base], default=[])
    return p
def snap(x, seen=None):
    if isinstance(x, Namespace): return ('NS', id(x), tuple((k, snap(v)) for k,v in vars(x).items()))
    if isinstance(x, dict): return ('dict', id(x), tuple((repr(k), snap(v)) for k,v in x.items()))
    if isinstance(x, (list, tuple)): return (type(x).__name__, id(x), tuple(snap(v) for v in x))
    if isinstance(x, (set, frozenset)): return (type(x).__name__, id(x), tuple(sorted(repr((type(v).__name__, v)) for v in x)))
    if isinstance(x, (int, float, str, bool, type(None))): return (type(x).__name__, repr(x))
    return (type(x).__name__, id(x), repr(getattr(x,'__dict__',None)))
def diffpath(a, b, path=''):
    if a==b: return None
    if a[0]!=b[0]: return path+f' type {a[0]}->{b[0]}'
    if a[0] in ('NS','dict','list','tuple') and a[1]==b[1] and len(a[2])==len(b[2]):
        for i,(x,y) in enumerate(zip(a[2],b[2])):
            if a[0] in ('NS','dict'):
                if x[0]!=y[0]: return path+f'>{a[0]} key changed'
                d=diffpath(x[1],y[1],path+'>'+a[0]+'[k]')
            else: d=diffpath(x,y,path+'>'+a[0]+'[*]')
            if d: return d
    if a[0] in ('NS','dict','list','tuple') and a[1]!=b[1]: return path+' identity'
    return path+f' {a[0]} value/len'
OBJ_POOL=[{'a':1}, {'l':[1,2]}, {'ll':[[1,2],[3]]}, {'d':{'k':1}}, {'dl':{'k':[1,2]}}, {'t':([1,2],3)}, {'t':[[1,2],3]}, {'st':{1,2}}, {'tl':[(1,2)]}, {'tl':[[1,2]]}, {'x':{'q':[1,(2,[3])]}}, {'n':['1','2']}, {'n':[1]},
  {'dd':{'u':'2','w':[1]}}, {'dg':{'w':[3,4]}}, {'obj':{'class_path':'__main__.Sub','init_args':{'tags':[1,2],'opts':{'z':1},'child':{'class_path':'__main__.Base','init_args':{'tags':[5]}}}}}, {'objs':[{'class_path':'__main__.Base','init_args':{'tags':[1]}}]},
  {'a':'bad'}, {'l':[1,'x']}, {'zz':1}, {'obj':{'class_path':'os.path'}}, {'inner':{'v':[1,2]}}, {'p':'A/pa.txt'}]
ARGV_POOL=[[], ['--l+=3'], ['--cfg','A/main.yaml'], ['--cfg','A/bad.yaml'], ['--t=[[1,2],3]'], ['--obj.tags+=4'], ['--objs+=Sub','--objs.opts={"a":2}'], ['--dd.u=3'], ['--a=x'], ['--x={"class_path":"__main__.Base"}'], ['--n','1','2'], ['--print_config'], ['--help']]
def rnd_cfgobj(r):
    o={}
    for _ in range(r.randint(1,3)): o.update(copy.deepcopy(r.choice(OBJ_POOL)))
    return o
found={}
def record(key, seed, detail):
    found.setdefault(key,[]).append((seed,detail))
N=int(sys.argv[1])
for seed in range(N):
    r=random.Random(seed); p=mk()
    for step in range(r.randint(1,5)):
        kind=r.choice(['parse_object','parse_object_ns','parse_args','parse_string','validate','dump','merge','strip','inst','defaults','help','parse_env'])
        args={}
        try:
            with contextlib.redirect_stdout(io.StringIO()), contextlib.redirect_stderr(io.StringIO()), warnings.catch_warnings():
                warnings.simplefilter('ignore')
                # prepare args (outside snapshot)
                if kind in('validate','dump','merge','strip','inst'):
                    base=p.parse_object(rnd_cfgobj(r), _skip_validation=(r.random()<.3)) if r.random()<.7 else p.parse_args(r.choice(ARGV_POOL))
                    # put raw caller-owned containers in
                    for k,v in copy.deepcopy(r.choice(OBJ_POOL)).items():
                        if r.random()<.5 and k not in('zz',): base[k]=v
                    args['cfg']=base
                    if kind=='merge': args['cfg2']=p.parse_object(rnd_cfgobj(r), _skip_validation=True)
                elif kind=='parse_object': args['obj']=rnd_cfgobj(r)
                elif kind=='parse_object_ns': args['obj']=Namespace(rnd_cfgobj(r))
                elif kind=='parse_args': args['argv']=list(r.choice(ARGV_POOL))
                elif kind=='parse_string': args['s']=json.dumps(r.choice([o for o in OBJ_POOL if 'st' not in o and 't' not in o and 'tl' not in o and 'x' not in o]))
                elif kind=='parse_env': args['env']={'APP_A':'1','APP_L':'[1,2]'}
        except (ArgumentError, SystemExit, Exception) as e:
            continue
        before={k:snap(v) for k,v in args.items()}
        dbefore=snap([a.default for a in p._actions]); cwd=os.getcwd(); env=dict(os.environ); ns=argparse.Namespace
        outcome='ok'
        try:
            with contextlib.redirect_stdout(io.StringIO()), contextlib.redirect_stderr(io.StringIO()), warnings.catch_warnings():
                warnings.simplefilter('ignore')
                if kind in('parse_object','parse_object_ns'): p.parse_object(args['obj'])
                elif kind=='parse_args': p.parse_args(args['argv'])
                elif kind=='parse_string': p.parse_string(args['s'])
                elif kind=='parse_env': p.parse_env(args['env'])
                elif kind=='validate': p.validate(args['cfg'])
                elif kind=='dump': p.dump(args['cfg'], skip_validation=r.random()<.3)
                elif kind=='merge': p.merge_config(args['cfg'], args['cfg2'])
                elif kind=='strip': p.strip_unknown(args['cfg'])
                elif kind=='inst': p.instantiate_classes(args['cfg'])
                elif kind=='defaults': p.get_defaults()
                elif kind=='help': p.format_help()
        except BaseException as e: outcome=type(e).__name__
        for k,v in args.items():
            a=snap(v)
            if a!=before[k]: record((kind, 'arg:'+k, diffpath(before[k],a)), seed, outcome)
        if snap([a.default for a in p._actions])!=dbefore: record((kind,'defaults', diffpath(dbefore, snap([a.default for a in p._actions]))), seed, outcome)
        if os.getcwd()!=cwd: record((kind,'cwd'),seed,outcome); os.chdir(cwd)
        if dict(os.environ)!=env: record((kind,'environ'),seed,outcome)
        if argparse.Namespace is not ns: record((kind,'argparse'),seed,outcome)
for k,v in sorted(found.items(), key=lambda kv:-len(kv[1])): print(len(v), k, v[0])
print('classes',len(found))
