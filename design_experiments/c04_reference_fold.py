import os, sys, json, random, shutil, copy, warnings
from typing import List, Dict, Optional
import jsonargparse
from jsonargparse import ArgumentParser, ActionConfigFile, ArgumentError, Namespace
ROOT='/tmp/x4b/w'
KEYS = {'a':('int',0), 's':('str','s0'), 'o':('optint',None), 'g.x':('int',-1), 'g.y':('str','y0'), 'g.h.z':('int',-3),
        'l':('list',[0]), 'g.l':('list',[]), 'd':('dict',{'z':0})}
TYPES = {'int':int,'str':str,'optint':Optional[int],'list':List[int],'dict':Dict[str,int]}
def mk(spec):
    p = ArgumentParser(exit_on_error=False, prog='app', default_config_files=spec['dcf'], default_env=spec['default_env'])
    p.add_argument('--cfg', action=ActionConfigFile)
    for k,(t,d) in KEYS.items():
        p.add_argument('--'+k, type=TYPES[t], default=copy.deepcopy(d))
    return p
def rnd_val(r, t):
    if t in('int','optint'): return r.randint(1,99) if t=='int' or r.random()<.8 else None
    if t=='str': return 'v%d'%r.randint(1,99)
    if t=='list': return [r.randint(1,9) for _ in range(r.randint(0,3))]
    if t=='dict': return {r.choice('pqr'): r.randint(1,9) for _ in range(r.randint(0,2))}
def rnd_settings(r, maxn=4):
    ks = r.sample(list(KEYS), r.randint(0,maxn))
    return {k: rnd_val(r, KEYS[k][0]) for k in ks}
def nest(settings, r=None):
    out={}
    for k,v in settings.items():
        parts=k.split('.')
        if r is not None and r.random()<.3 and len(parts)>1:
            # dotted spelling partially
            cut=r.randint(1,len(parts)-1); parts=parts[:cut-1]+['.'.join(parts[cut-1:])] if False else parts
        cur=out
        for q in parts[:-1]: cur=cur.setdefault(q,{})
        cur[parts[-1]]=v
    return out
def nest_dotted(settings, r):
    if r.random()<.5: return dict(settings)   # fully dotted document
    return nest(settings)                      # fully nested document
def gen(r):
    shutil.rmtree(ROOT, ignore_errors=True); os.makedirs(ROOT+'/dc')
    sc={'files':{}, 'dcf':[], 'env':{}, 'argv':[], 'default_env': r.random()<.5}
    model_sources=[]  # list of ('set',settings) / ops
    # default config files
    for i in range(r.randint(0,3)):
        if r.random()<.5:
            sub='dc/p%d'%i; os.makedirs(ROOT+'/'+sub)
            names=r.sample(['a','b','c','d'], r.randint(0,3))
            for n in names:
                st=rnd_settings(r,3); empty=r.random()<.15
                sc['files'][f'{sub}/{n}.yaml']=('' if empty else json.dumps(nest(st)))
            sc['dcf'].append(sub+'/*.yaml')
            for n in sorted(names):
                txt=sc['files'][f'{sub}/{n}.yaml']
                if txt: model_sources.append(('dcf',json.loads(txt)))
        else:
            fn='dc/f%d.yaml'%i
            sc['dcf'].append(fn)
            if r.random()<.7:
                st=rnd_settings(r,3); sc['files'][fn]=json.dumps(nest(st)); model_sources.append(('dcf',nest(st)))
    # env
    envsrc=[]
    if r.random()<.5:
        st=rnd_settings(r,3)
        if r.random()<.5: sc['files']['envcfg.yaml']=json.dumps(nest(st)); sc['env']['APP_CFG']='envcfg.yaml'
        else: sc['env']['APP_CFG']=json.dumps(nest(st))
        envsrc.append(('cfg',nest(st)))
    st=rnd_settings(r,3)
    for k,v in st.items():
        sc['env']['APP_'+k.replace('.','__').upper()] = json.dumps(v) if not isinstance(v,str) else v
        envsrc.append(('set',k,v))
    # argv
    argsrc=[]
    for i in range(r.randint(0,6)):
        c=r.random()
        if c<.45:
            k=r.choice(list(KEYS)); v=rnd_val(r,KEYS[k][0]); tv=json.dumps(v) if not isinstance(v,str) else v
            if r.random()<.5: sc['argv'].append(f'--{k}={tv}')
            else: sc['argv']+= [f'--{k}', tv]
            argsrc.append(('set',k,v))
        elif c<.6:
            k=r.choice(['l','g.l']); 
            if r.random()<.6: v=r.randint(1,9); sc['argv'].append(f'--{k}+={v}'); argsrc.append(('app',k,[v]))
            else: v=[r.randint(1,9) for _ in range(r.randint(0,2))]; sc['argv'].append(f'--{k}+={json.dumps(v)}'); argsrc.append(('app',k,v))
        elif c<.72:
            it=r.choice('pqr'); v=r.randint(1,9); sc['argv'].append(f'--d.{it}={v}'); argsrc.append(('item','d',it,v))
        else:
            st=rnd_settings(r,3)
            if r.random()<.5:
                fn='arg%d.yaml'%i; sc['files'][fn]=json.dumps(nest(st)); sc['argv']+=['--cfg',fn]
            else: sc['argv']+=['--cfg', json.dumps(nest(st))]
            argsrc.append(('cfg',nest(st)))
    for fn,txt in sc['files'].items():
        os.makedirs(os.path.dirname(ROOT+'/'+fn), exist_ok=True); open(ROOT+'/'+fn,'w').write(txt)
    sc['method']=r.choice(['parse_args','parse_args_envT','parse_args_envF','parse_env','parse_string','parse_object','parse_string_envT'])
    sc['osdefenv']=r.choice([None,None,'true','false'])
    st=rnd_settings(r,4); sc['direct']=nest_dotted(st,r); sc['direct_flat']=st
    return sc, model_sources, envsrc, argsrc
def flatten(d, pre=''):
    out={}
    for k,v in d.items():
        kk=pre+k
        if isinstance(v,dict) and kk not in KEYS: out.update(flatten(v,kk+'.'))
        else: out[kk]=v
    return out
def model(sc, dcf, envsrc, argsrc):
    st={k:copy.deepcopy(d) for k,(t,d) in KEYS.items()}
    def app(src):
        if src[0] in('dcf','cfg'):
            for k,v in flatten(src[1]).items(): st[k]=copy.deepcopy(v)
        elif src[0]=='set': st[src[1]]=copy.deepcopy(src[2])
        elif src[0]=='app': st[src[1]]=list(st[src[1]] or [])+list(src[2])
        elif src[0]=='item': d=dict(st[src[1]] or {}); d[src[2]]=src[3]; st[src[1]]=d
    for s in dcf: app(s)
    m=sc['method']
    de = sc['default_env'] if sc['osdefenv'] is None else (sc['osdefenv']=='true')
    env_on = {'parse_args':de,'parse_args_envT':True,'parse_args_envF':False,'parse_env':True,'parse_string':de,'parse_object':de,'parse_string_envT':True}[m]
    if env_on:
        for s in envsrc: app(s)
    if m.startswith('parse_args'):
        for s in argsrc: app(s)
    if m in('parse_string','parse_object','parse_string_envT'):
        for k,v in sc['direct_flat'].items(): st[k]=copy.deepcopy(v)
    return st
def run(sc):
    os.chdir(ROOT)
    old=dict(os.environ); os.environ.update(sc['env'])
    if sc['osdefenv']: os.environ['JSONARGPARSE_DEFAULT_ENV']=sc['osdefenv']
    m=sc['method']
    try:
        p=mk(sc)
        if m=='parse_env': return p.parse_env(dict(sc['env']))
        if m=='parse_string': return p.parse_string(json.dumps(sc['direct']))
        if m=='parse_string_envT': return p.parse_string(json.dumps(sc['direct']), env=True)
        if m=='parse_object': return p.parse_object(copy.deepcopy(sc['direct']))
        kw={'parse_args':{}, 'parse_args_envT':{'env':True}, 'parse_args_envF':{'env':False}}[m]
        return p.parse_args(sc['argv'], **kw)
    finally:
        os.environ.clear(); os.environ.update(old)
bad=0
N=int(sys.argv[1]) if len(sys.argv)>1 else 2000
for seed in range(N):
    r=random.Random(seed)
    sc,dcf,envsrc,argsrc=gen(r)
    exp=model(sc,dcf,envsrc,argsrc)
    try:
        with warnings.catch_warnings():
            warnings.simplefilter('ignore')
            cfg=run(sc)
        got={k:cfg[k] for k in KEYS}
    except BaseException as e:
        got='EXC %s %s'%(type(e).__name__, str(e).replace('\n',' | ')[:200])
    if got!=exp:
        bad+=1
        if bad<=8:
            print('SEED',seed, json.dumps({k:sc[k] for k in ('dcf','env','argv','method','default_env','osdefenv','direct','files')}))
            if isinstance(got,str): print('  got',got)
            else: print('  diff',{k:(got[k],exp[k]) for k in KEYS if got[k]!=exp[k]})
print('bad',bad,'of',N)
