#!/venv/bin/python
"""Keep a confirmed sub-agent change under seeded/<id>/ (patch.diff, demo.py, NOTE.md, meta.json).

usage: keep_seeded.py <worktree> <PROPERTY> <id> <round> "<change, one line>" "<caught_by>" ["<strengthening needed>"]
Run tools/confirm_seeded.sh on the worktree first; this script only files the result."""
import json, os, shutil, subprocess, sys

wt, prop, sid, rnd, change, caught = sys.argv[1:7]
strength = sys.argv[7] if len(sys.argv) > 7 else ""
root = os.path.dirname(os.path.dirname(os.path.abspath(__file__)))
d = os.path.join(root, "seeded", sid)
os.makedirs(d, exist_ok=True)
diff = subprocess.run(["git", "-C", wt, "diff", "--", "jsonargparse"], capture_output=True, text=True, check=True).stdout
open(os.path.join(d, "patch.diff"), "w").write(diff)
for f in ("demo.py", "NOTE.md"):
    if os.path.exists(os.path.join(wt, f)):
        shutil.copy(os.path.join(wt, f), os.path.join(d, f))
files = sorted({l[6:] for l in diff.splitlines() if l.startswith("+++ b/")})
n = sum(1 for l in diff.splitlines() if l[:1] in "+-" and not l.startswith(("+++", "---")))
meta = {
    "property": prop,
    "origin": "sub-agent round %s (fresh agent, property text + scratch worktree only)" % rnd,
    "files": files,
    "changed_lines": n,
    "change": change,
    "needs_to_manifest": "see NOTE.md",
    "suite": "1180 passed = baseline (confirmed by me, tools/confirm_seeded.sh)",
    "demo": "demo.py: FAIL with the change, PASS without (confirmed by me)",
    "caught_by": caught,
    "strengthening_needed": strength or "none: caught at once",
}
json.dump(meta, open(os.path.join(d, "meta.json"), "w"), indent=1)
print("kept", d, files, n)
