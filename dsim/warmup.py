"""Lazy imports cost ~0.3 s per forked run (reconplogger -> requests ...).  The warm image therefore
imports, *by module name only*, whatever a representative workload imports lazily.  The workload itself
runs in a throw-away fork, so no jsonargparse state of it survives into the image that runs are forked
from (the pristine leg of C09 depends on that)."""
import importlib
import io
import os
import sys


def _workload():
    import contextlib
    import tempfile

    from . import zoo
    from .props import c09

    before = set(sys.modules)
    d = tempfile.mkdtemp(prefix="dsim-warm-")
    os.chdir(d)
    os.environ["COLUMNS"] = "100"
    feats = set(c09.FEATURES) - {"dcf"}
    for eoe in (False,):
        p = zoo.build(c09.parser_spec(feats, eoe))
        for argv in (["--a=1"], ["--help"], ["--base.help=Sub1"], ["--base=Sub1", "--probe=p:x"], ["--a=x"], ["--print_config"], ["fit", "--lr=0.2"], ["--fn.help"], ["--cfg", "{}"]):
            with contextlib.redirect_stdout(io.StringIO()), contextlib.redirect_stderr(io.StringIO()):
                try:
                    cfg = p.parse_args(argv)
                    p.dump(cfg)
                    p.instantiate_classes(cfg)
                    p.save(cfg, os.path.join(d, "out.yaml"), overwrite=True)
                    p.parse_env({"APP_A": "1"})
                    p.parse_object({"a": 1})
                    p.get_defaults()
                except BaseException:
                    pass
    for name in ("path_fr", "list_path_fr", "tuple_lf_i", "optset_int", "dict_any", "enum", "literal"):
        with contextlib.redirect_stdout(io.StringIO()), contextlib.redirect_stderr(io.StringIO()):
            try:
                q = zoo.build({"opts": {"exit_on_error": False}, "args": [{"k": "arg", "name": "x", "type": name, "enable_path": True}]})
                q.parse_args(["--x=1"])
                q.parse_args(["--help"])
            except BaseException:
                pass
    try:  # URL / fsspec read modes (C03 enables them in some runs)
        from jsonargparse import set_config_read_mode

        set_config_read_mode(urls_enabled=True)
        set_config_read_mode(fsspec_enabled=True)
        import fsspec  # noqa: F401
        import requests  # noqa: F401
    except BaseException:
        pass
    try:  # omegaconf / jsonnet modes and actions (C03)
        q = zoo.build({"opts": {"exit_on_error": False, "parser_mode": "omegaconf"}, "args": [{"k": "arg", "name": "x", "type": "any"}, {"k": "jsonnet", "name": "jn"}, {"k": "jsonschema", "name": "js", "schema": {"type": "object"}}]})
        q.parse_string("x: 1\njn: {a: 1}\njs: {k: 1}\n")
    except BaseException:
        pass
    import shutil

    shutil.rmtree(d, ignore_errors=True)
    return sorted(m for m in set(sys.modules) - before if not m.startswith("dsim"))


def warm():
    from .harness import fork_call

    st, mods = fork_call(_workload)
    n = 0
    if st == "ok":
        for m in mods:
            try:
                importlib.import_module(m)
                n += 1
            except Exception:
                pass
    return n
