import os, shutil
os.chdir('/tmp/x18')
for f in os.listdir('.'):
    if f != 't.py':
        shutil.rmtree(f) if os.path.isdir(f) else os.remove(f)
from typing import List, Dict, Optional
from jsonargparse import ArgumentParser, ActionConfigFile, ArgumentError, Namespace, ActionParser
def snap():
    out = {}
    for r, ds, fs in os.walk('.'):
        for f in fs:
            if f == 't.py': continue
            p = os.path.join(r, f); out[p] = open(p).read()
    return out
def mk():
    inner = ArgumentParser(exit_on_error=False)
    inner.add_argument('--v', type=int, default=1)
    p = ArgumentParser(exit_on_error=False)
    p.add_argument('--cfg', action=ActionConfigFile)
    p.add_argument('--a', type=int, default=0)
    p.add_argument('--inner', action=ActionParser(parser=inner))
    return p
p = mk()
os.makedirs('in', exist_ok=True); os.makedirs('out', exist_ok=True)
open('in/inner.yaml','w').write('v: 5\n')
open('in/main.yaml','w').write('a: 2\ninner: inner.yaml\n')
cfg = p.parse_path('in/main.yaml')
print(cfg)
# 1 single-file invalid, overwrite
open('out/s.yaml','w').write('precious\n')
bad = cfg.clone(); bad.a = 'notint'
for kw in [dict(multifile=False, overwrite=True), dict(multifile=False, overwrite=False), dict(multifile=True, overwrite=True)]:
    try:
        p.save(bad, 'out/s.yaml', **kw)
    except Exception as e:
        print(kw, type(e).__name__, str(e)[:60])
    print('  ', snap().get('./out/s.yaml'))
    open('out/s.yaml','w').write('precious\n')
try:
    p.save(bad, 'out/new.yaml', multifile=False)
except Exception as e: print(type(e).__name__)
print('new exists', os.path.exists('out/new.yaml'), os.path.getsize('out/new.yaml') if os.path.exists('out/new.yaml') else None)
# multi-file valid save
p.save(cfg, 'out/m.yaml')
print(snap())
print(p.parse_path('out/m.yaml'))
# multi-file with existing inner.yaml no overwrite
try:
    p.save(cfg, 'out/m2.yaml')
except Exception as e: print('m2', type(e).__name__, e)
print(sorted(snap()))
