"""dsim - deterministic simulation with fault injection for jsonargparse (see /verif/DESIGN.md)."""
