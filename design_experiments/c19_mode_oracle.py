import os, stat, itertools, shutil, sys, types
ROOT='/tmp/x19/w'
shutil.rmtree(ROOT, ignore_errors=True); os.makedirs(ROOT); os.chdir(ROOT)
import jsonargparse, jsonargparse._util as U
from jsonargparse import Path
real_os = os
def sim_access(path, mode, **kw):
    try: st = real_os.stat(path)
    except OSError: return False
    if mode == real_os.F_OK: return True
    m = st.st_mode
    ok = True
    if mode & real_os.R_OK: ok &= bool(m & 0o400)
    if mode & real_os.W_OK: ok &= bool(m & 0o200)
    if mode & real_os.X_OK: ok &= bool(m & 0o100)
    return ok
class OsProxy:
    def __getattr__(self, n): return getattr(real_os, n)
    access = staticmethod(sim_access)
U.os = OsProxy()
# fixture
open('f_rw','w').write('x'); os.chmod('f_rw',0o600)
open('f_r','w').write('x'); os.chmod('f_r',0o400)
open('f_w','w').write('x'); os.chmod('f_w',0o200)
open('f_x','w').write('x'); os.chmod('f_x',0o700)
open('f_none','w').write('x'); os.chmod('f_none',0o000)
os.mkdir('d_rwx'); os.mkdir('d_rx'); os.chmod('d_rx',0o500); os.mkdir('d_wx'); os.chmod('d_wx', 0o300)
os.mkfifo('fifo')
os.symlink('f_rw','ln_f'); os.symlink('d_rwx','ln_d'); os.symlink('nothing','ln_dangling')
paths = ['f_rw','f_r','f_w','f_x','f_none','d_rwx','d_rx','d_wx','fifo','ln_f','ln_d','ln_dangling','missing','d_rwx/missing','d_rx/missing','nodir/missing','nodir/a/b','f_rw/under','.','..','-', os.path.join(ROOT,'f_rw'), 'd_rwx/../f_r']
flags = 'fdrwxcFDRWX'
def modes():
    seen=set()
    for n in range(0,5):
        for combo in itertools.combinations_with_replacement(flags, n):
            m=''.join(combo)
            try: Path._check_mode(m)
            except ValueError: continue
            yield m
def oracle(p, mode):
    if p == '-': return True
    a = p if os.path.isabs(p) else os.path.join(os.getcwd(), p)
    def exists(x): 
        try: os.stat(x); return True
        except OSError: return False
    def isdir(x):
        try: return stat.S_ISDIR(os.stat(x).st_mode)
        except OSError: return False
    def isfile(x):
        try: 
            m=os.stat(x).st_mode; return stat.S_ISREG(m) or stat.S_ISFIFO(m)
        except OSError: return False
    def perm(x, bit):
        try: return bool(os.stat(x).st_mode & bit)
        except OSError: return False
    if 'c' in mode:
        # walk up to first existing ancestor
        parent = os.path.dirname(os.path.normpath(a))
        if mode.count('c') == 2:
            while not exists(parent) and parent != os.path.dirname(parent):
                parent = os.path.dirname(parent)
        if not isdir(parent): return False
        if not perm(parent, 0o200): return False
        if 'd' in mode and exists(a) and not isdir(a): return False
        if 'f' in mode and exists(a) and not isfile(a): return False
    elif 'd' in mode or 'f' in mode:
        if not exists(a): return False
        if 'd' in mode and not isdir(a): return False
        if 'f' in mode and not isfile(a): return False
    if 'r' in mode and not perm(a,0o400): return False
    if 'w' in mode and not perm(a,0o200): return False
    if 'x' in mode and not perm(a,0o100): return False
    if 'D' in mode and isdir(a): return False
    if 'F' in mode and isfile(a): return False
    if 'R' in mode and perm(a,0o400): return False
    if 'W' in mode and perm(a,0o200): return False
    if 'X' in mode and perm(a,0o100): return False
    return True
n=0; dis={}
for m in modes():
    for p in paths:
        n+=1
        try:
            Path(p, mode=m); got=True
        except TypeError: got=False
        except BaseException as e: got='EXC:'+type(e).__name__
        exp = oracle(p, m)
        if got != exp:
            dis.setdefault((p, str(got), exp), []).append(m)
print('cases', n, 'disagreements', sum(len(v) for v in dis.values()))
for k,v in dis.items(): print(k, len(v), v[:8])
