"""A module with a syntax error (a half-edited plugin on sys.path)."""
def broken(:
    pass
