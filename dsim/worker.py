"""Warm worker interpreter: imports jsonargparse + harness once, then serves requests from stdin;
every request is executed in a fresh os.fork() of the warm image and answered with one JSON line."""
import json
import os
import signal
import sys
import time
import traceback

WALL_DEADLINE_S = 180


def _child(req, wfd):
    from . import harness

    try:
        devnull = os.open(os.devnull, os.O_RDWR)
        os.dup2(devnull, 0)
        os.dup2(devnull, 1)
        harness.set_limits()
        res = harness.run_request(req)
        payload = json.dumps({"status": "ok", "result": res}, default=repr)
    except BaseException as ex:
        payload = json.dumps({"status": "harness-exception", "error": "".join(traceback.format_exception(ex))[-6000:]})
    harness._write_all(wfd, payload.encode())
    os.close(wfd)


def serve():
    # warm image
    repo = os.environ.get("VERIF_REPO", "/repo")
    sys.path.insert(0, repo)
    import yaml  # noqa: F401

    import jsonargparse  # noqa: F401

    from . import harness, simtypes, zoo  # noqa: F401
    from .props import all_props

    all_props()
    from . import warmup

    warmup.warm()
    harness.REACH.start(harness.assert_repo())
    out = sys.stdout
    sys.stdout = sys.stderr  # nothing but protocol lines on the real stdout
    for line in sys.stdin:
        line = line.strip()
        if not line:
            continue
        req = json.loads(line)
        if req.get("cmd") == "quit":
            break
        r, w = os.pipe()
        pid = os.fork()
        if pid == 0:
            code = 0
            try:
                os.close(r)
                _child(req, w)
            except BaseException:
                code = 71
            finally:
                os._exit(code)
        os.close(w)
        chunks = []
        t0 = time.monotonic()
        import select

        timed_out = False
        while True:
            left = WALL_DEADLINE_S - (time.monotonic() - t0)
            if left <= 0:
                timed_out = True
                break
            rl, _, _ = select.select([r], [], [], min(left, 5.0))
            if rl:
                b = os.read(r, 1 << 16)
                if not b:
                    break
                chunks.append(b)
        os.close(r)
        if timed_out:
            try:
                os.kill(pid, signal.SIGKILL)
            except OSError:
                pass
        _, st = os.waitpid(pid, 0)
        data = b"".join(chunks)
        if timed_out:
            resp = {"status": "wall-timeout"}
        elif os.WIFSIGNALED(st):
            sig = os.WTERMSIG(st)
            resp = {"status": "hang" if sig in (signal.SIGXCPU, signal.SIGKILL) else "crash", "signal": sig}
        elif not data:
            resp = {"status": "crash", "exit": os.WEXITSTATUS(st)}
        else:
            resp = json.loads(data)
        resp["idx"] = req.get("idx")
        out.write(json.dumps(resp) + "\n")
        out.flush()
