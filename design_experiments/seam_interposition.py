import os, builtins, glob as real_glob, types, sys
import jsonargparse, jsonargparse._util as U, jsonargparse._core as C, jsonargparse._typehints as T, jsonargparse._actions as A
from jsonargparse import ArgumentParser, ActionConfigFile, ActionParser
from jsonargparse.typing import Path_fr, Path_fc
LOG=[]
class PathProxy:
    def __init__(s, real): s._r=real
    def __getattr__(s, n):
        f=getattr(s._r,n)
        if callable(f) and n in ('isfile','isdir','realpath','exists','expanduser','abspath'):
            def w(*a,**k):
                LOG.append(('os.path.'+n, a[0] if a else None)); return f(*a,**k)
            return w
        return f
class OsProxy:
    def __init__(s): s.path=PathProxy(os.path)
    def __getattr__(s, n):
        f=getattr(os,n)
        if n in ('access','stat','getcwd','chdir','getenv','listdir'):
            def w(*a,**k):
                LOG.append(('os.'+n, a[0] if a else None)); return f(*a,**k)
            return w
        return f
px=OsProxy()
for m in (U,C,T): m.os=px
def sim_open(*a,**k):
    LOG.append(('open',a[0],a[1] if len(a)>1 else 'r')); return builtins.open(*a,**k)
U.open=sim_open; C.open=sim_open
class GlobProxy:
    def glob(s,p,**k):
        LOG.append(('glob',p)); return real_glob.glob(p,**k)
C.glob=GlobProxy()
os.makedirs('/tmp/xseam/w/A/B',exist_ok=True); os.chdir('/tmp/xseam/w')
open('A/main.yaml','w').write('p: pa.txt\ninner: B/inner.yaml\n'); open('A/pa.txt','w').write('x'); open('A/B/inner.yaml','w').write('q: qb.txt\n'); open('A/B/qb.txt','w').write('x'); open('dflt.yaml','w').write('a: 1\n')
inner=ArgumentParser(exit_on_error=False); inner.add_argument('--q', type=Path_fr)
p=ArgumentParser(exit_on_error=False, default_config_files=['dflt.yaml']); p.add_argument('--cfg',action=ActionConfigFile); p.add_argument('--a',type=int,default=0); p.add_argument('--p',type=Path_fr); p.add_argument('--inner',action=ActionParser(parser=inner))
LOG.clear()
cfg=p.parse_args(['--cfg','A/main.yaml'])
print(len(LOG)); 
for e in LOG: print(' ',e)
LOG.clear(); p.save(cfg,'/tmp/xseam/w/out.yaml',overwrite=True); print(len(LOG)); 
for e in LOG: print(' ',e)
