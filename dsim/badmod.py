"""A module that cannot be imported: it raises at import time (a broken plugin on sys.path)."""
raise RuntimeError("dsim.badmod is broken on purpose")
