"""Scratch world: a private directory tree on the real kernel file system, built from scenario data."""
import base64
import hashlib
import os
import shutil
import stat


def _force_rmtree(path):
    if not os.path.lexists(path):
        return
    for d, dirs, files in os.walk(path):
        try:
            os.chmod(d, 0o700)
        except OSError:
            pass
    shutil.rmtree(path, ignore_errors=True)


def build(root, world):
    """world = {dirs:[...], files:{rel:{text|b64, mode}}, symlinks:{rel:target}, fifos:[rel], dirmodes:{rel:mode}}"""
    _force_rmtree(root)
    os.makedirs(root)
    for d in sorted(world.get("dirs", []), key=lambda x: (x.count("/"), x)):
        os.makedirs(os.path.join(root, d), exist_ok=True)
    for rel, spec in world.get("files", {}).items():
        p = os.path.join(root, rel)
        os.makedirs(os.path.dirname(p), exist_ok=True)
        if isinstance(spec, str):
            spec = {"text": spec}
        data = base64.b64decode(spec["b64"]) if "b64" in spec else spec.get("text", "").encode("utf-8", "surrogateescape")
        with open(p, "wb") as f:
            f.write(data)
        os.chmod(p, spec.get("mode", 0o644))
    for rel in world.get("fifos", []):
        p = os.path.join(root, rel)
        os.makedirs(os.path.dirname(p), exist_ok=True)
        os.mkfifo(p, 0o644)
    for rel, target in world.get("symlinks", {}).items():
        p = os.path.join(root, rel)
        os.makedirs(os.path.dirname(p), exist_ok=True)
        os.symlink(target, p)
    for rel, mode in world.get("dirmodes", {}).items():
        os.chmod(os.path.join(root, rel), mode)


def snapshot(root):
    """names, types, sizes, SHA-256, mode bits of everything under root (C18 oracle, restore check)."""
    out = {}
    for d, dirs, files in os.walk(root):
        dirs.sort()
        for n in sorted(dirs + files):
            p = os.path.join(d, n)
            rel = os.path.relpath(p, root)
            st = os.lstat(p)
            m = st.st_mode
            if stat.S_ISLNK(m):
                out[rel] = ("link", os.readlink(p))
            elif stat.S_ISDIR(m):
                out[rel] = ("dir", stat.S_IMODE(m))
            elif stat.S_ISFIFO(m):
                out[rel] = ("fifo", stat.S_IMODE(m))
            else:
                with open(p, "rb") as f:
                    data = f.read()
                out[rel] = ("file", stat.S_IMODE(m), len(data), hashlib.sha256(data).hexdigest())
    return out


def copy_tree(src, dst):
    """copy preserving symlinks, fifos, modes (no blocking on FIFOs)."""
    _force_rmtree(dst)
    os.makedirs(dst)
    dirmodes = []
    for d, dirs, files in os.walk(src):
        rel = os.path.relpath(d, src)
        for n in dirs:
            s = os.path.join(d, n)
            t = os.path.join(dst, rel, n)
            if os.path.islink(s):
                os.symlink(os.readlink(s), t)
            else:
                os.mkdir(t)
                dirmodes.append((t, stat.S_IMODE(os.lstat(s).st_mode)))
        for n in files:
            s = os.path.join(d, n)
            t = os.path.join(dst, rel, n)
            st = os.lstat(s)
            if stat.S_ISLNK(st.st_mode):
                os.symlink(os.readlink(s), t)
            elif stat.S_ISFIFO(st.st_mode):
                os.mkfifo(t, stat.S_IMODE(st.st_mode))
            else:
                with open(s, "rb") as f:
                    data = f.read()
                with open(t, "wb") as f:
                    f.write(data)
                os.chmod(t, stat.S_IMODE(st.st_mode))
    for t, m in reversed(dirmodes):
        os.chmod(t, m)


def restore(root, side):
    """make root identical to side again (contents only; root itself keeps its inode so cwd stays valid)."""
    for n in os.listdir(root):
        p = os.path.join(root, n)
        if os.path.isdir(p) and not os.path.islink(p):
            _force_rmtree(p)
        else:
            os.unlink(p)
    tmp = side
    for d, dirs, files in os.walk(tmp):
        rel = os.path.relpath(d, tmp)
        for n in dirs:
            s = os.path.join(d, n)
            t = os.path.normpath(os.path.join(root, rel, n))
            if os.path.islink(s):
                os.symlink(os.readlink(s), t)
            else:
                os.mkdir(t)
        for n in files:
            s = os.path.join(d, n)
            t = os.path.normpath(os.path.join(root, rel, n))
            st = os.lstat(s)
            if stat.S_ISLNK(st.st_mode):
                os.symlink(os.readlink(s), t)
            elif stat.S_ISFIFO(st.st_mode):
                os.mkfifo(t, stat.S_IMODE(st.st_mode))
            else:
                with open(s, "rb") as f:
                    data = f.read()
                with open(t, "wb") as f:
                    f.write(data)
                os.chmod(t, stat.S_IMODE(st.st_mode))
    for d, dirs, files in os.walk(tmp, topdown=False):
        rel = os.path.relpath(d, tmp)
        if rel != ".":
            os.chmod(os.path.normpath(os.path.join(root, rel)), stat.S_IMODE(os.lstat(d).st_mode))
