#!/bin/bash
# every corpus entry: 'fixed' must reproduce on the pinned tree (7f1da0b) and not on /repo; 'known' must reproduce on /repo
cd /verif
[ -d /tmp/unfixed ] || git -C /repo worktree add -q --detach /tmp/unfixed 7f1da0b
bad=0
for f in replays/corpus/*/*.json; do
  st=$(/venv/bin/python -c "import json;print(json.load(open('$f'))['status'])")
  a=$(VERIF_REPO=/tmp/unfixed /venv/bin/python -m dsim replay $f 2>&1 | head -1 | cut -c1-9)
  b=$(/venv/bin/python -m dsim replay $f 2>&1 | head -1 | cut -c1-9)
  ok=no
  [ "$st" = fixed ] && [ "$a" = VIOLATION ] && [ "$b" = NOT-REPRO ] && ok=yes
  [ "$st" = known ] && [ "$b" = VIOLATION ] && ok=yes
  [ $ok = no ] && { echo "PROBLEM $st pinned=$a current=$b $f"; bad=$((bad+1)); }
done
echo "corpus entries: $(ls replays/corpus/*/*.json | wc -l), problems: $bad"
