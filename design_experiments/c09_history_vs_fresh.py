import os, sys, io, json, random, re, warnings, contextlib
os.environ['COLUMNS']='100'
from typing import List, Dict, Optional
from dataclasses import dataclass
import calendar
from jsonargparse import ArgumentParser, ActionConfigFile, ArgumentError, Namespace, lazy_instance
os.makedirs('/tmp/x9/w', exist_ok=True); os.chdir('/tmp/x9/w')
open('c1.yaml','w').write('a: 5\nfit:\n  lr: 0.5\n')
open('c2.yaml','w').write('cal:\n  class_path: calendar.TextCalendar\n  init_args:\n    firstweekday: 2\n')
open('bad.yaml','w').write('a: [1\n')
@dataclass
class D:
    u: int = 1
    v: str = 'x'
class Model:
    def __init__(self, width: int = 3, cal: Optional[calendar.Calendar] = None): self.width=width; self.cal=cal
def mk(exit_on_error=False):
    p = ArgumentParser(exit_on_error=exit_on_error, prog='app', default_env=False)
    p.add_argument('--cfg', action=ActionConfigFile)
    p.add_argument('--a', type=int, default=0)
    p.add_argument('--l', type=List[int], default=[])
    p.add_argument('--dd', type=Optional[D], default=None)
    p.add_argument('--cal', type=Optional[calendar.Calendar], default=None)
    p.add_class_arguments(Model, 'model')
    p.link_arguments('a', 'model.width')
    sc = p.add_subcommands(required=False)
    fit = ArgumentParser(exit_on_error=exit_on_error); fit.add_argument('--cfg', action=ActionConfigFile); fit.add_argument('--lr', type=float, default=0.1); fit.add_argument('--model', type=Optional[Model], default=None)
    tst = ArgumentParser(exit_on_error=exit_on_error); tst.add_argument('--k', type=int, default=1); tst.add_argument('name', type=str)
    sc.add_subcommand('fit', fit); sc.add_subcommand('test', tst)
    return p
ARGVS = [[], ['--a=1'], ['--a=x'], ['--l+=1','--l+=2'], ['--cfg','c1.yaml'], ['--cfg','c2.yaml'], ['--cfg','bad.yaml'], ['--cfg','nofile.yaml'],
  ['--print_config'], ['--print_config','--a=x'], ['--a=2','--print_config=skip_null'], ['--print_config=bogus'], ['--help'], ['--cal.help'], ['--cal.help=calendar.TextCalendar'], ['--cal.help=os.path'],
  ['--cal=TextCalendar','--cal.firstweekday=3'], ['--cal=calendar.HTMLCalendar'], ['--cal','{"class_path":"calendar.Calendar","init_args":{"firstweekday":"x"}}'],
  ['--dd.u=3'], ['--dd','{"u":2,"v":"q"}'], ['--dd.w=1'], ['fit','--lr=0.3'], ['fit','--lr=x'], ['fit','--print_config'], ['fit','--help'], ['test','nm','--k=3'], ['test'], ['bogus'], ['--model.width=4'], ['--model.cal=TextCalendar'],
  ['fit','--model=Model','--model.width=9'], ['fit','--model.cal.firstweekday=1'], ['--unknown=1'], ['fit', '--cfg', '{"lr": 0.7}']]
OBJS = [{}, {'a':3}, {'a':'x'}, {'zz':1}, {'cal':{'class_path':'calendar.TextCalendar'}}, {'fit':{'lr':0.2}}, {'fit':{'lr':0.2},'test':{'name':'n'}}, {'dd':{'u':5}}, {'l':[1,2]}, {'subcommand':'test','test':{'name':'q'}}]
STRS = ['a: 4\n', 'a: [\n', 'cal: calendar.TextCalendar\n', 'fit:\n  lr: 0.9\n', '{}', 'zz: 1']
def canon(x):
    s = repr(x) if not isinstance(x,str) else x
    return re.sub(r'0x[0-9a-f]+','0xX',s)
def do(p, op):
    out=io.StringIO(); err=io.StringIO()
    try:
        with contextlib.redirect_stdout(out), contextlib.redirect_stderr(err), warnings.catch_warnings():
            warnings.simplefilter('ignore')
            k=op[0]
            if k=='args': r=p.parse_args(list(op[1]))
            elif k=='obj': r=p.parse_object(json.loads(json.dumps(op[1])))
            elif k=='str': r=p.parse_string(op[1])
            elif k=='env': r=p.parse_env(dict(op[1]))
            elif k=='defaults': r=p.get_defaults()
            elif k=='dump': r=p.dump(p.parse_args(list(op[1])), **op[2])
            elif k=='validate': r=p.validate(p.parse_object(json.loads(json.dumps(op[1])), _skip_validation=True))
            elif k=='inst': 
                c=p.instantiate_classes(p.parse_args(list(op[1]))); r=[(kk, type(v).__name__, getattr(v,'__dict__',None) and sorted((a,canon(b)) for a,b in v.__dict__.items())) for kk,v in c.items()]
        return ('ret', canon(r), out.getvalue())
    except ArgumentError as e: return ('AE', canon(str(e)), out.getvalue())
    except SystemExit as e: return ('exit', e.code, out.getvalue(), canon(err.getvalue()))
    except BaseException as e: return ('EXC', type(e).__name__, canon(str(e)))
def rnd_op(r):
    c=r.random()
    if c<.5: return ('args', r.choice(ARGVS))
    if c<.6: return ('obj', r.choice(OBJS))
    if c<.68: return ('str', r.choice(STRS))
    if c<.74: return ('env', r.choice([{}, {'APP_A':'7'}, {'APP_A':'x'}, {'APP_CFG':'c1.yaml'}, {'APP_SUBCOMMAND':'fit','APP_FIT_LR':'0.4'}]))
    if c<.8: return ('defaults',)
    if c<.88: return ('dump', r.choice(ARGVS), r.choice([{}, {'skip_none':False}, {'format':'json'}, {'skip_default':True}]))
    if c<.94: return ('validate', r.choice(OBJS))
    return ('inst', r.choice(ARGVS))
N=int(sys.argv[1]); bad={}
for seed in range(N):
    r=random.Random(seed); eoe = r.random()<.3
    p=mk(eoe); hist=[]
    for i in range(r.randint(2,12)):
        op=rnd_op(r); hist.append(op)
        got=do(p,op); exp=do(mk(eoe),op)
        if got!=exp:
            key=(op[0], got[0], exp[0])
            bad.setdefault(key,[]).append((seed,i,hist[-3:],got,exp))
            break
for k,v in bad.items():
    print(k, len(v)); s=v[0]; print('   seed',s[0],'step',s[1]); print('   hist',s[2]); print('   got',str(s[3])[:300]); print('   exp',str(s[4])[:300])
print('divergent runs', sum(len(v) for v in bad.values()), 'of', N)
