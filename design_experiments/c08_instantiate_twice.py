from typing import List, Dict, Optional, Tuple
from jsonargparse import ArgumentParser, Namespace, lazy_instance
LOG=[]
class Base:
    def __init__(self, n: int = 0): LOG.append((type(self).__name__, n)); self.n=n
class Sub(Base):
    def __init__(self, n: int = 1, child: Optional[Base] = None, kids: List[Base] = []): super().__init__(n); self.child=child; self.kids=kids
class Holder:
    def __init__(self, a: Base = lazy_instance(Sub, n=7), b: Base = lazy_instance(Base), m: Dict[str, Base] = {}, t: Optional[Tuple[Base, int]] = None): self.a=a; self.b=b; self.m=m; self.t=t
p = ArgumentParser(exit_on_error=False)
p.add_class_arguments(Holder, 'h')
p.add_argument('--x', type=Base, default={'class_path':'__main__.Sub','init_args':{'child':{'class_path':'__main__.Base'}}})
p.add_argument('--xs', type=List[Base], default=[])
cfg = p.parse_args(['--xs+=Base','--xs+=Sub','--xs.kids+=Base','--h.m={"k":{"class_path":"__main__.Base"}}', '--h.t=[{"class_path":"__main__.Sub"}, 3]'])
print(cfg)
i1 = p.instantiate_classes(cfg); n1=len(LOG); i2 = p.instantiate_classes(cfg); print(n1, len(LOG)-n1)
def objs(o, path, out):
    if isinstance(o, (Base, Holder)):
        out[path]=o
        for k,v in vars(o).items(): objs(v, path+'.'+k, out)
    elif isinstance(o, Namespace):
        for k,v in vars(o).items(): objs(v, path+'.'+k, out)
    elif isinstance(o, dict):
        for k,v in o.items(): objs(v, path+'.'+k, out)
    elif isinstance(o, (list,tuple)):
        for k,v in enumerate(o): objs(v, path+'[%d]'%k, out)
    return out
a=objs(i1,'',{}); b=objs(i2,'',{})
print(sorted(a)==sorted(b), [k for k in a if a[k] is b[k]])
