#!/bin/bash
# thorough tier of every check, one after the other (used with `vp run`); evidence is not written (snapshot)
for p in ${@:-C03 C04 C08 C09 C18 C19}; do
  echo "=== $p $(date +%T)"; /venv/bin/python -u -m dsim check $p --tier thorough --no-evidence 2>&1 | grep -v "^  minimised" | tail -12 | cut -c1-600
done
