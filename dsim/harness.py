"""Per-run harness executed inside the forked child: world, environment, seams, op runner, outcome
canonicalisation, sub-forks (sweeps / pristine legs), result assembly."""
import argparse
import contextlib
import faulthandler
import hashlib
import io
import json
import os
import random
import resource
import signal
import sys
import traceback
import warnings

from . import rt, world

BASE_ENV = {
    "COLUMNS": "100",
    "LINES": "40",
    "LC_ALL": "C.UTF-8",
    "TZ": "UTC",
    "PATH": "/usr/bin:/bin",
}

CPU_LIMIT_S = 30
OP_CPU_S = 3.0  # CPU (not wall) budget of a single operation; a normal one burns < 0.05 s


class HangDetected(BaseException):
    """raised inside an operation that used up its CPU budget: non-termination, judged in CPU time so that
    a loaded machine cannot turn a slow run into a false alarm"""


def _on_vtalrm(signum, frame):
    raise HangDetected("operation exceeded its CPU budget of %.0f s" % OP_CPU_S)
AS_LIMIT = 4 << 30


# ---------------------------------------------------------------------------------------------------
# sub-forks


def _write_all(fd, data):
    view = memoryview(data)
    while view:
        n = os.write(fd, view)
        view = view[n:]


def fork_call(fn, *args):
    """Run fn(*args) in a fork of the current state.  Returns ('ok', value) | ('signal', n) | ('exit', n)
    | ('error', text).  The value travels as JSON."""
    r, w = os.pipe()
    sys.stdout.flush() if hasattr(sys.stdout, "flush") else None
    pid = os.fork()
    if pid == 0:
        code = 0
        try:
            os.close(r)
            try:
                val = fn(*args)
                payload = json.dumps({"ok": val}, default=repr).encode()
            except BaseException as ex:  # harness problem inside the sub-fork
                payload = json.dumps({"error": "".join(traceback.format_exception(ex))[-4000:]}).encode()
            _write_all(w, payload)
            os.close(w)
        except BaseException:
            code = 70
        finally:
            os._exit(code)
    os.close(w)
    chunks = []
    while True:
        b = os.read(r, 1 << 16)
        if not b:
            break
        chunks.append(b)
    os.close(r)
    _, st = os.waitpid(pid, 0)
    if os.WIFSIGNALED(st):
        return ("signal", os.WTERMSIG(st))
    data = b"".join(chunks)
    if not data:
        return ("exit", os.WEXITSTATUS(st))
    d = json.loads(data)
    if "error" in d:
        return ("error", d["error"])
    return ("ok", d["ok"])


# ---------------------------------------------------------------------------------------------------
# outcomes


class Outcome:
    """What an operation did: kind in {'ret','AE','exit','exc'}."""

    __slots__ = ("kind", "value", "exc", "text", "code", "stdout", "stderr", "frames", "injected")

    def __init__(self):
        self.kind = None
        self.value = None
        self.exc = None
        self.text = ""
        self.code = None
        self.stdout = ""
        self.stderr = ""
        self.frames = []
        self.injected = False

    def brief(self):
        if self.kind == "ret":
            return "ret"
        if self.kind == "AE":
            return "AE"
        if self.kind == "exit":
            return "exit%s" % (self.code,)
        return "exc:" + type(self.exc).__name__


def _is_injected(sim, ex):
    """is ex (or anything on its cause/context chain) an exception object the injector raised?"""
    seen = 0
    while ex is not None and seen < 20:
        if any(ex is i for i in sim.injected):
            return True
        ex = ex.__cause__ or ex.__context__
        seen += 1
    return False


def jsonargparse_frames(ex):
    out = []
    tb = ex.__traceback__
    while tb is not None:
        fn = tb.tb_frame.f_code.co_filename
        if "/jsonargparse/" in fn:
            out.append(os.path.basename(fn)[:-3] + ":" + tb.tb_frame.f_code.co_name)
        tb = tb.tb_next
    return out


def run_op(fn, stdin=None, stdout=None):
    """Execute one operation with captured streams.  `stdin`: None (empty), str, or {'closed':True} / {'none':True}."""
    from jsonargparse import ArgumentError

    sim = rt.CUR
    o = Outcome()
    out, err = io.StringIO(), io.StringIO()
    old = sys.stdin, sys.stdout, sys.stderr
    if isinstance(stdin, dict) and stdin.get("none"):
        sys.stdin = None
    elif isinstance(stdin, dict) and stdin.get("closed"):
        s = io.StringIO("")
        s.close()
        sys.stdin = s
    else:
        sys.stdin = io.StringIO(stdin or "")
    sys.stdout, sys.stderr = out, err
    if isinstance(stdout, dict) and stdout.get("none"):
        sys.stdout = None  # process started with stdout closed (prog >&-, daemon, pythonw)
    elif isinstance(stdout, dict) and stdout.get("closed"):
        c = io.StringIO()
        c.close()
        sys.stdout = c
    try:
        with warnings.catch_warnings():
            warnings.simplefilter("ignore")
            try:
                signal.signal(signal.SIGVTALRM, _on_vtalrm)
                signal.setitimer(signal.ITIMER_VIRTUAL, OP_CPU_S)
                try:
                    o.value = fn()
                finally:
                    signal.setitimer(signal.ITIMER_VIRTUAL, 0)
                o.kind = "ret"
            except ArgumentError as ex:
                o.kind, o.exc, o.text = "AE", ex, str(ex)
            except SystemExit as ex:
                o.kind, o.exc, o.code = "exit", ex, ex.code
            except BaseException as ex:
                o.kind, o.exc, o.text = "exc", ex, str(ex)
                o.frames = jsonargparse_frames(ex)
    finally:
        sys.stdin, sys.stdout, sys.stderr = old
    o.stdout, o.stderr = out.getvalue(), err.getvalue()
    if o.exc is not None and sim is not None:
        o.injected = _is_injected(sim, o.exc)
    return o


def canon_value(v, sim=None, depth=0):
    """canonical type-tagged tree of a result (instances by class + recorded constructor kwargs)"""
    from jsonargparse import Namespace

    from .simtypes import Probe, SimObj

    sim = sim or rt.CUR
    if depth > 40:
        return "<deep>"
    if v is None or isinstance(v, (bool, int, float)):
        return [type(v).__name__, v if not isinstance(v, float) else repr(v)]
    if isinstance(v, str):
        return ["str", sim.canon(v) if sim else v]
    if isinstance(v, Namespace):
        return ["NS", [[k, canon_value(x, sim, depth + 1)] for k, x in vars(v).items()]]
    if isinstance(v, dict):
        return ["dict", [[repr(k), canon_value(x, sim, depth + 1)] for k, x in v.items()]]
    if isinstance(v, (list, tuple)):
        return [type(v).__name__, [canon_value(x, sim, depth + 1) for x in v]]
    if isinstance(v, (set, frozenset)):
        return [type(v).__name__, sorted(json.dumps(canon_value(x, sim, depth + 1)) for x in v)]
    if isinstance(v, SimObj):
        return ["obj", type(v).__name__, v._sim_kwargs]
    if isinstance(v, Probe):
        return ["Probe", v.text]
    if hasattr(v, "relative") and hasattr(v, "absolute") and hasattr(v, "mode"):
        return ["Path", type(v).__name__, str(v.relative), sim.canon(str(v.absolute)) if sim else str(v.absolute)]
    r = repr(v)
    return [type(v).__name__, sim.canon(r) if sim else r]


def canon_outcome(o, sim=None, with_stderr=False):
    sim = sim or rt.CUR
    if o.kind == "ret":
        d = ["ret", canon_value(o.value, sim), sim.canon(o.stdout)]
    elif o.kind == "AE":
        d = ["AE", sim.canon(o.text), sim.canon(o.stdout)]
    elif o.kind == "exit":
        d = ["exit", o.code if isinstance(o.code, (int, type(None))) else sim.canon(str(o.code)), sim.canon(o.stdout)]
    else:
        d = ["exc", type(o.exc).__name__, sim.canon(o.text)]
    if with_stderr:
        d.append(sim.canon(o.stderr))
    return d


# ---------------------------------------------------------------------------------------------------
# handler reach through sys.monitoring (PEP 669)

_HANDLER_LINES = None
_TOOL = 3


def handler_table(pkg_dir):
    """first line of every except handler / finally block in jsonargparse/*.py"""
    import ast

    table = {}
    for fn in sorted(os.listdir(pkg_dir)):
        if not fn.endswith(".py"):
            continue
        path = os.path.join(pkg_dir, fn)
        try:
            tree = ast.parse(open(path).read())
        except SyntaxError:
            continue
        funcs = []
        for node in ast.walk(tree):
            if isinstance(node, (ast.FunctionDef, ast.AsyncFunctionDef)):
                funcs.append((node.lineno, node.end_lineno, node.name))

        def owner(line):
            best = None
            for a, b, n in funcs:
                if a <= line <= b and (best is None or a > best[0]):
                    best = (a, n)
            return best[1] if best else "<module>"

        for node in ast.walk(tree):
            if isinstance(node, ast.Try):
                for h in node.handlers:
                    if h.body:
                        table[(fn, h.body[0].lineno)] = "%s:%s:except@%d" % (fn[:-3], owner(h.lineno), h.lineno)
                if node.finalbody:
                    ln = node.finalbody[0].lineno
                    table[(fn, ln)] = "%s:%s:finally@%d" % (fn[:-3], owner(ln), ln)
    return table


class Reach:
    def __init__(self):
        self.hits = set()
        self.table = {}
        self.by_path = {}
        self.on = False

    def start(self, pkg_dir):
        self.table = handler_table(pkg_dir)
        self.by_path = {}
        for (fn, ln), name in self.table.items():
            self.by_path.setdefault(os.path.join(pkg_dir, fn), {})[ln] = name
        mon = sys.monitoring
        try:
            mon.use_tool_id(_TOOL, "dsim")
        except ValueError:
            pass
        by_path, hits, DISABLE = self.by_path, self.hits, mon.DISABLE

        def cb(code, line):
            d = by_path.get(code.co_filename)
            if d is not None:
                n = d.get(line)
                if n is not None:
                    hits.add(n)
            return DISABLE

        mon.register_callback(_TOOL, mon.events.LINE, cb)
        mon.set_events(_TOOL, mon.events.LINE)
        self.on = True

    def restart(self):
        if self.on:
            self.hits.clear()
            sys.monitoring.restart_events()


REACH = Reach()


# ---------------------------------------------------------------------------------------------------
# context handed to property executors


class Ctx:
    def __init__(self, sim, scenario, tier, root):
        self.sim = sim
        self.sc = scenario
        self.tier = tier
        self.root = root
        self.violations = []
        self.outcomes = []  # brief outcome kinds per op -> run signature
        self.op_kinds = []
        self.notes = {}
        self.nontrivial = False
        self.sub_fired = []  # faults fired in sub-forks (sweeps)
        self.sub_seam_calls = 0
        self.sub_runs = 0
        self.sub_hits = set()
        self.sub_probes = {}
        self._base = (dict(sim.probes), sim.seam_calls, len(sim.fired))

    def violation(self, rule, fingerprint, message):
        fp = dict(fingerprint)
        fp["rule"] = rule
        self.violations.append({"rule": rule, "fingerprint": fp, "message": self.sim.canon(str(message))[:1500]})
        self.sim.emit("violation", rule, json.dumps(fp, sort_keys=True))

    def record(self, op_kind, outcome_brief):
        self.op_kinds.append(op_kind)
        self.outcomes.append(outcome_brief)
        self.sim.emit("outcome", op_kind, outcome_brief)

    def absorb(self, sub):
        """merge statistics of a sub-fork result (dict produced by sub_result())"""
        self.sub_runs += 1
        self.sub_fired += [tuple(x) for x in sub.get("fired", [])]
        self.sub_seam_calls += sub.get("seam_calls", 0)
        self.sub_hits.update(sub.get("hits", []))
        for k, v in sub.get("probes", {}).items():
            self.sub_probes[k] = self.sub_probes.get(k, 0) + v
        for v in sub.get("violations", []):
            self.violations.append(v)
            self.sim.emit("violation", v["rule"], json.dumps(v["fingerprint"], sort_keys=True))

    def sub_result(self, extra=None):
        """what a sub-fork reports back to its parent"""
        p0, c0, f0 = self._base
        d = {
            "fired": self.sim.fired[f0:],
            "seam_calls": self.sim.seam_calls - c0 + self.sub_seam_calls,
            "hits": sorted(REACH.hits | self.sub_hits),
            "probes": {k: v - p0.get(k, 0) for k, v in self.sim.probes.items() if v - p0.get(k, 0)},
            "violations": self.violations,
            "digest": self.sim.digest(),
        }
        if extra:
            d.update(extra)
        return d


def set_limits():
    resource.setrlimit(resource.RLIMIT_CPU, (CPU_LIMIT_S, CPU_LIMIT_S + 2))
    try:
        resource.setrlimit(resource.RLIMIT_AS, (AS_LIMIT, AS_LIMIT))
    except (ValueError, OSError):
        pass
    resource.setrlimit(resource.RLIMIT_CORE, (0, 0))
    try:
        faulthandler.register(signal.SIGXCPU, file=sys.__stderr__, all_threads=False, chain=True)
    except (ValueError, AttributeError, OSError):
        pass


def enter_world(root, sc, faults=None, record_events=True):
    """build the scratch world, really chdir into it, really replace os.environ, install the seams"""
    w = sc.get("world", {})
    world.build(root, w)
    os.chdir(os.path.join(root, w.get("cwd", ".")))
    os.environ.clear()
    os.environ.update(BASE_ENV)
    os.environ["HOME"] = os.path.join(root, w.get("home", "home"))
    for k, v in w.get("env", {}).items():
        os.environ[k] = v.replace("$W", root)
    sim = rt.Sim(root, sc.get("faults", []) if faults is None else faults, sc.get("listing_seed", 0), record_events)
    sim.fifo_content = dict(w.get("fifo_content", {}))
    sim.fifo_one_shot = bool(w.get("fifo_one_shot"))
    sim.locale_encoding = w.get("locale")
    rt.CUR = sim
    rt.install_seams()
    return sim


def assert_repo():
    import jsonargparse

    repo = os.path.realpath(os.environ.get("VERIF_REPO", "/repo"))
    f = os.path.realpath(jsonargparse.__file__)
    if not f.startswith(repo + "/"):
        raise RuntimeError("jsonargparse imported from %s, not from VERIF_REPO=%s" % (f, repo))
    return os.path.dirname(f)


def subst(sc, root):
    """scenarios are position independent: `$W` stands for the root of the scratch world"""
    return json.loads(json.dumps(sc).replace("$W", root))


def run_request(req):
    """Executed in the forked child.  Returns the result dict (JSON-able)."""
    from .props import get_prop

    prop = get_prop(req["prop"])
    root = req["root"]
    tier = req.get("tier", "quick")
    pkg_dir = assert_repo()
    if not REACH.on:
        REACH.start(pkg_dir)
    REACH.restart()
    if "scenario" in req:
        sc = req["scenario"]
        seed = sc.get("seed")
    else:
        seed = req["seed"]
        rng = random.Random(seed)
        sc = prop.generate(rng, tier)
        sc["seed"] = seed
        sc["property"] = req["prop"]
        want = sc.pop("want_faults", False)
        if hasattr(prop, "place_faults") and want:
            status, golden = fork_call(_golden, prop, sc, root, tier)
            if status != "ok":
                golden = None
            prop.place_faults(sc, rng, golden)
    scx = subst(sc, root)
    sim = enter_world(root, scx, record_events=req.get("events", False))
    ctx = Ctx(sim, scx, tier, root)
    prop.execute(scx, ctx)
    fired = [list(x) for x in sim.fired] + [list(x) for x in ctx.sub_fired]
    sig_src = json.dumps(
        [ctx.op_kinds, sorted(set((f[3], f[1], ) for f in fired)), ctx.outcomes, sorted(ctx.notes.items())], sort_keys=True
    )
    trace_src = json.dumps([sim.ops_kinds[k] for k in sorted(sim.ops_kinds)])
    res = {
        "seed": seed,
        "scenario": sc,
        "digest": sim.digest(),
        "violations": ctx.violations,
        "sig": hashlib.sha1(sig_src.encode()).hexdigest()[:16],
        "trace": hashlib.sha1(trace_src.encode()).hexdigest()[:16],
        "nontrivial": bool(ctx.nontrivial),
        "stats": {
            "ops": len(ctx.op_kinds),
            "seam_calls": sim.seam_calls + ctx.sub_seam_calls,
            "sub_runs": ctx.sub_runs,
            "fired": fired,
            "probes": _merge_counts(sim.probes, ctx.sub_probes),
            "hits": sorted(REACH.hits | ctx.sub_hits),
            "outcomes": ctx.outcomes,
            "op_kinds": ctx.op_kinds,
        },
    }
    if req.get("events"):
        res["events"] = sim.events
    return res


def _merge_counts(a, b):
    d = dict(a)
    for k, v in b.items():
        d[k] = d.get(k, 0) + v
    return d


def _golden(prop, sc, root, tier):
    """fault-free execution that only reports which seam calls each op makes"""
    sc2 = subst(sc, root)
    sc2["faults"] = []
    sim = enter_world(root, sc2, record_events=False)
    ctx = Ctx(sim, sc2, tier, root)
    ctx.golden = True
    prop.execute(sc2, ctx)
    return {str(k): v for k, v in sim.ops_kinds.items()}
