"""Determinism self-tests: a seed must give the same scenario and the same event-log digest in any
worker, at any worker count, from the seed and from the recorded scenario (replay path)."""
import json
import os
import time

from . import engine
from .props import IDS, all_props


def _digests(pool, prop, seeds, tier="quick", scenarios=None):
    if scenarios is None:
        reqs = [{"prop": prop, "seed": s, "tier": tier} for s in seeds]
    else:
        reqs = [{"prop": prop, "scenario": sc, "hashseed": s % engine.HASHSEEDS, "tier": tier} for s, sc in zip(seeds, scenarios)]
    out = []
    for r in pool.run(reqs):
        if r.get("status") != "ok":
            out.append((r.get("status"), None, r.get("error")))
        else:
            out.append(("ok", r["result"]["digest"], r["result"]["scenario"]))
    return out


def run(props, nseeds, out=print):
    props = props or [p for p in IDS if p in all_props()]
    bad = 0
    t0 = time.time()
    for prop in props:
        seeds = [engine.seed_for(12345, prop, i) for i in range(nseeds)]
        a = engine.Pool(jobs=16)
        try:
            ra = _digests(a, prop, seeds)
        finally:
            a.close()
        b = engine.Pool(jobs=4)
        try:
            rb = _digests(b, prop, seeds)
            ok_idx = [i for i, r in enumerate(ra) if r[0] == "ok"]
            rc = _digests(b, prop, [seeds[i] for i in ok_idx], scenarios=[ra[i][2] for i in ok_idx])
            # and once more in an interpreter started with ANOTHER PYTHONHASHSEED: set/dict iteration order
            # must not reach the event log
            rd = [
                ("ok", r["result"]["digest"], None) if r.get("status") == "ok" else (r.get("status"), None, None)
                for r in b.run([{"prop": prop, "scenario": ra[i][2], "hashseed": (seeds[i] + 1) % engine.HASHSEEDS, "tier": "quick"} for i in ok_idx])
            ]
        finally:
            b.close()
        mism = 0
        for i, (x, y) in enumerate(zip(ra, rb)):
            if x[0] != y[0] or x[1] != y[1]:
                mism += 1
                if mism <= 3:
                    out("  %s seed %d: 16-worker run %s/%s vs 4-worker run %s/%s" % (prop, seeds[i], x[0], x[1], y[0], y[1]))
            elif x[0] == "ok" and json.dumps(x[2], sort_keys=True) != json.dumps(y[2], sort_keys=True):
                mism += 1
                out("  %s seed %d: scenario differs between generations" % (prop, seeds[i]))
        for i, z in zip(ok_idx, rc):
            if z[0] != "ok" or z[1] != ra[i][1]:
                mism += 1
                if mism <= 6:
                    out("  %s seed %d: replay from scenario gives %s/%s, from seed %s" % (prop, seeds[i], z[0], z[1], ra[i][1]))
        for i, z in zip(ok_idx, rd):
            if z[0] != "ok" or z[1] != ra[i][1]:
                mism += 1
                if mism <= 6:
                    out("  %s seed %d: under another PYTHONHASHSEED the digest is %s/%s, expected %s" % (prop, seeds[i], z[0], z[1], ra[i][1]))
        nonok = sum(1 for r in ra if r[0] != "ok")
        out("%s: %d seeds x 4 executions (16 workers, 4 workers, replay from scenario, replay under another PYTHONHASHSEED): %d mismatches, %d non-ok" % (prop, nseeds, mism, nonok))
        if nonok:
            out("   first non-ok: %r" % ([r for r in ra if r[0] != "ok"][0],))
        bad += mism + nonok
    out("selftest %s in %.0fs" % ("FAILED" if bad else "passed", time.time() - t0))
    return 3 if bad else 0


def selfcheck(out=print):
    """setup_cmd: imports, origin of jsonargparse, 20-seed determinism smoke per property"""
    import subprocess
    import sys

    repo = os.environ.get("VERIF_REPO", "/repo")
    code = "import sys; sys.path.insert(0, %r); import jsonargparse, yaml; print(jsonargparse.__file__)" % repo
    p = subprocess.run([sys.executable, "-c", code], capture_output=True, text=True)
    if p.returncode != 0 or not os.path.realpath(p.stdout.strip()).startswith(os.path.realpath(repo) + "/"):
        out("HARNESS-ERROR: jsonargparse does not import from %s: %s %s" % (repo, p.stdout, p.stderr[-500:]))
        return 3
    out("jsonargparse imports from " + p.stdout.strip())
    props = [p for p in IDS if p in all_props()]
    pool = engine.Pool(jobs=8)
    bad = 0
    try:
        for prop in props:
            seeds = [engine.seed_for(777, prop, i) for i in range(20)]
            r1 = _digests(pool, prop, seeds)
            r2 = _digests(pool, prop, seeds)
            mism = sum(1 for x, y in zip(r1, r2) if x[0] != "ok" or x[:2] != y[:2])
            out("%s: 20 seeds twice, %d mismatches" % (prop, mism))
            if mism:
                out("   %r" % ([(x[:2], y[:2]) for x, y in zip(r1, r2) if x[0] != "ok" or x[:2] != y[:2]][0],))
            bad += mism
    finally:
        pool.close()
    return 3 if bad else 0
