#!/bin/bash
# every corpus entry: 'fixed' must reproduce on the pinned tree 7f1da0b (or on the commit named by its old_commit field,
# when an earlier defect masks it on the pinned tree) and not on /repo; 'known' must reproduce on /repo
cd /verif
bad=0
for f in replays/corpus/*/*.json; do
  st=$(/venv/bin/python -c "import json;print(json.load(open('$f'))['status'])")
  oc=$(/venv/bin/python -c "import json;print(json.load(open('$f')).get('old_commit','7f1da0b'))")
  wt=/tmp/unfixed_$oc; [ "$oc" = 7f1da0b ] && wt=/tmp/unfixed
  [ -d $wt ] || git -C /repo worktree add -q --detach $wt $oc
  a=$(VERIF_REPO=$wt /venv/bin/python -m dsim replay $f 2>&1 | head -1 | cut -c1-9)
  b=$(/venv/bin/python -m dsim replay $f 2>&1 | head -1 | cut -c1-9)
  ok=no
  [ "$st" = fixed ] && [ "$a" = VIOLATION ] && [ "$b" = NOT-REPRO ] && ok=yes
  [ "$st" = known ] && [ "$b" = VIOLATION ] && ok=yes
  [ $ok = no ] && { echo "PROBLEM $st old($oc)=$a current=$b $f"; bad=$((bad+1)); }
done
echo "corpus entries: $(ls replays/corpus/*/*.json | wc -l), problems: $bad"
