#!/venv/bin/python
"""Writes the sub-agent prompts of one seeding round to /tmp/prompt<round>_<ID>.txt and prints the
worktree directories to create.  The prompt holds only the property text, the worktree path, the suite
command and the list of change ideas used by earlier rounds (one line each, taken from the kept
changes' own descriptions - nothing about the checks).

usage: tools/make_prompts.py <round-tag> [ID ...]
"""
import json, os, sys, subprocess

ROOT = os.path.dirname(os.path.dirname(os.path.abspath(__file__)))
TEMPLATE = '''You are helping to evaluate a verification effort by planting a realistic regression. Work ONLY inside {dir} - it is a scratch git worktree of the Python library jsonargparse (package source in {dir}/jsonargparse, tests in {dir}/jsonargparse_tests). Do NOT read, list or touch /verif or /repo or any other worktree; everything you need is in {dir}.

THE PROPERTY that the library is supposed to satisfy ({pid}: {title}):
"{statement}"
Quantified over: {quant}
Code it is anchored in (for orientation): {files}

YOUR TASK: make ONE small, realistic change to the library source (the kind of regression a maintainer could introduce in a refactoring, clean-up, "optimisation" or well-meant bug fix; 1-15 changed lines, only files under {dir}/jsonargparse/) that BREAKS this property, while
 (1) the package still imports and works for ordinary use, and
 (2) the existing test suite gives exactly the baseline result. Run it with:  cd {dir} && /venv/bin/python -m pytest -q -p no:cacheprovider jsonargparse_tests 2>&1 | tail -5   (python -m puts {dir} first on sys.path, so your modified copy is what gets tested). Baseline on the unchanged worktree: 1180 passed, 13 failed, 55 skipped (the 13 failures are pre-existing and environment-related; the SAME 13 must fail and nothing else - check the unchanged tree first if unsure: git stash).
The breakage must need something SPECIFIC to manifest - a particular multi-step sequence of operations, a fault (an OS error, a file in an unusual state, an exception raised by user code, a failing call) striking at a particular point, an unusual input, or two cooperating sites that each look fine alone. It must NOT be something that ordinary use or a trivial smoke test exposes at once. Prefer a change whose effect is genuinely inside the property's statement (not merely adjacent to it).

DELIVER, all inside {dir}:
 (a) {dir}/patch.diff : the change as produced by `git diff -- jsonargparse` (library source only).
 (b) {dir}/demo.py : a small self-contained demonstration that prints FAIL and exits 1 when the property is broken (i.e. with your change) and prints PASS and exits 0 on the unchanged tree. It must run as `cd {dir} && /venv/bin/python demo.py` and create any files it needs in a temporary directory.
 (c) {dir}/NOTE.md : 5-10 lines: what the change is, why the existing tests do not notice, exactly what is needed for it to manifest.
Verify BOTH directions yourself (with the change: suite = baseline, demo FAILs; `git stash` -> demo PASSes; `git stash pop`). Leave the change APPLIED in the worktree when you finish. Do not commit. In your final answer give a 5-line summary (what you changed, file:line, what it needs to manifest, test-suite result, demo results in both directions).

ADDITIONAL CONSTRAINTS FOR THIS ROUND:
 - `git log --oneline | head -48` in the worktree shows ~{nfix} recent commits whose message starts with "fix:". Do NOT revert, undo or weaken any of those repairs (not even partially or in disguise) - find a DIFFERENT mechanism.
 - The break must literally violate a clause of the property's statement as quoted above (say which clause in NOTE.md), not merely something adjacent to it.
 - Earlier rounds already used the following ideas; do NOT reuse them or close variants, pick a different part of the code and a different trigger:
{used}
 - Prefer a trigger that involves the ENVIRONMENT or a FAILURE: the state of files/directories, environment variables, an OS call failing at a particular point, an exception from user-defined code (types, classes, functions the parser calls), a specific multi-step sequence of calls, or two cooperating code sites. Look at parts of the anchored files (and of the files they call into) that the ideas above have NOT touched.
 - Keep the change SUBTLE: it should survive a careful code review and must not change behaviour for any input that does not meet its specific trigger.
 - While exploring you may stumble on behaviour of the UNCHANGED tree that already violates the property; if so, list it briefly at the end of NOTE.md under "seen on the unchanged tree" (input + what happens) - but your deliverable is still a change of your own.'''


def main():
    tag = sys.argv[1]
    ids = sys.argv[2:] or ['C03', 'C04', 'C08', 'C09', 'C18', 'C19']
    props = {json.loads(l)['id']: json.loads(l) for l in open(ROOT + '/properties.jsonl')}
    used = {}
    for d in sorted(os.listdir(ROOT + '/seeded')):
        m = json.load(open('%s/seeded/%s/meta.json' % (ROOT, d)))
        txt = m.get('change') or ''
        if not txt or txt.startswith('#'):
            txt = m.get('idea') or d[4:].replace('-', ' ')
        used.setdefault(m['property'], []).append(' '.join(txt.split())[:190])
    nfix = subprocess.run(['git', '-C', '/repo', 'log', '--oneline'], capture_output=True, text=True).stdout.count(' fix:')
    for pid in ids:
        p = props[pid]
        d = '/tmp/s%s_%s' % (tag, pid.lower())
        txt = TEMPLATE.format(dir=d, pid=pid, title=p['title'], statement=p['statement'], quant=p['quantifier']['text'],
                              files=', '.join(p['anchors']['files']), nfix=nfix,
                              used='\n'.join('     * ' + x for x in used.get(pid, [])))
        open('/tmp/prompt%s_%s.txt' % (tag, pid), 'w').write(txt)
        print(d)


if __name__ == '__main__':
    main()
